import Amgcl.Driver.Util
import Amgcl.Driver.Primitives
import Amgcl.Model.Primitives
/-!
C07, other value types and backends — the SAME generic model functions executed at other carriers:
* `bcrs_*`  block_crs backend: the operator is the scalar CRS matrix it was converted from (rows with distinct columns)
* `eig_*`   Eigen backend on exact-in-binary64 data, NaN in overwritten outputs = POISON
* `cx_*`    `std::complex<Q>`: carrier `CRat` (pairs of rationals), inner product conjugate-linear in the 2nd argument
-/
namespace Amgcl.Driver.Primitives2
open Amgcl Amgcl.Driver

/-- Gaussian rationals -/
structure CRat where
  re : Rat
  im : Rat
deriving DecidableEq

instance : Add CRat := ⟨fun a b => ⟨a.re + b.re, a.im + b.im⟩⟩
instance : Sub CRat := ⟨fun a b => ⟨a.re - b.re, a.im - b.im⟩⟩
instance : Mul CRat := ⟨fun a b => ⟨a.re * b.re - a.im * b.im, a.re * b.im + a.im * b.re⟩⟩
instance : Zero CRat := ⟨⟨0, 0⟩⟩
instance : One CRat := ⟨⟨1, 0⟩⟩
instance : OfNat CRat 0 := ⟨⟨0, 0⟩⟩
instance : OfNat CRat 1 := ⟨⟨1, 0⟩⟩
def cconj (a : CRat) : CRat := ⟨a.re, -a.im⟩

def pC : P CRat := do let r ← pRat; let i ← pRat; pure ⟨r, i⟩
def showC (c : CRat) : String := showRat c.re ++ " " ++ showRat c.im
def pCVec : P (Vec CRat) := pVecOf pC
def pCCRS : P (CRS CRat) := pCRSOf pC
def showCVec (v : Vec CRat) : String := showVecOf showC v

def rowsDistinct {α : Type} (A : CRS α) : Bool := A.nodupb

def handle (op : String) (args : List String) : Option String :=
  match op with
  | "bcrs_spmv" | "eig_spmv" => withArgs (do let _ ← pNat; let a ← pPRat; let A ← pPCRS; let x ← pPVec; let b ← pPRat; let y ← pPVec; pure (a, A, x, b, y)) args
      fun (a, A, x, b, y) =>
        if A.wfb && x.size == A.ncols && y.size == A.nrows && (op == "eig_spmv" || rowsDistinct A) then showPVec (spmv a A x b y) else badInput
  | "bcrs_residual" | "eig_residual" => withArgs (do let _ ← pNat; let f ← pPVec; let A ← pPCRS; let x ← pPVec; pure (f, A, x)) args
      fun (f, A, x) =>
        if A.wfb && x.size == A.ncols && f.size == A.nrows && (op == "eig_residual" || rowsDistinct A) then showPVec (residual f A x) else badInput
  | "eig_axpby" => withArgs (do let a ← pPRat; let x ← pPVec; let b ← pPRat; let y ← pPVec; pure (a, x, b, y)) args
      fun (a, x, b, y) => if x.size == y.size then showPVec (axpby a x b y) else badInput
  | "eig_axpbypcz" => withArgs (do let a ← pPRat; let x ← pPVec; let b ← pPRat; let y ← pPVec; let c ← pPRat; let z ← pPVec; pure (a, x, b, y, c, z)) args
      fun (a, x, b, y, c, z) => if x.size == y.size && x.size == z.size then showPVec (axpbypcz a x b y c z) else badInput
  | "eig_vmul" => withArgs (do let a ← pPRat; let x ← pPVec; let y ← pPVec; let b ← pPRat; let z ← pPVec; pure (a, x, y, b, z)) args
      fun (a, x, y, b, z) => if x.size == y.size && x.size == z.size then showPVec (vmul a x y b z) else badInput
  | "eig_inner_product" => withArgs (do let x ← pPVec; let y ← pPVec; pure (x, y)) args
      fun (x, y) => if x.size == y.size then showPRat (innerProductSerial id x y) else badInput
  | "cx_spmv" => withArgs (do let a ← pC; let A ← pCCRS; let x ← pCVec; let b ← pC; let y ← pCVec; pure (a, A, x, b, y)) args
      fun (a, A, x, b, y) => if A.wfb && x.size == A.ncols && y.size == A.nrows then showCVec (spmv a A x b y) else badInput
  | "cx_residual" => withArgs (do let f ← pCVec; let A ← pCCRS; let x ← pCVec; pure (f, A, x)) args
      fun (f, A, x) => if A.wfb && x.size == A.ncols && f.size == A.nrows then showCVec (residual f A x) else badInput
  | "cx_axpby" => withArgs (do let a ← pC; let x ← pCVec; let b ← pC; let y ← pCVec; pure (a, x, b, y)) args
      fun (a, x, b, y) => if x.size == y.size then showCVec (axpby a x b y) else badInput
  | "cx_inner_product" => withArgs (do let nt ← pNat; let x ← pCVec; let y ← pCVec; pure (nt, x, y)) args
      fun (nt, x, y) => if x.size == y.size && nt ≥ 1 then showC (innerProduct cconj nt x y) else badInput
  | _ => none

end Amgcl.Driver.Primitives2
