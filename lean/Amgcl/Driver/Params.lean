import Amgcl.Driver.Util
import Amgcl.Model.PTree
import Amgcl.Generated.ParamsTableData
/-!
handlers for C14 (`harness/h_params.cpp`): every answer is computed from the table REGENERATED from /repo
(`Amgcl.Generated.paramTables` / `enumTables`) with the property-tree semantics of `Amgcl/Model/PTree.lean`.

* `params_compiles S`          → `yes` | `no`                       are import and export well-typed (`ParamTable.wellTyped`)?
* `params_fields S`            → `n name:kind …` (sorted)           the data members the translator found
* `params_roundtrip S f v`     → `f=v` | `f=default` | `not-exported` | `ill-typed` | `invalid` (enum member, unknown name)
                                 construct from `{f: v}`, export with `get`, read `f` back
* `params_nested R c₁=T₁ … f v` → `c₁.….f=v` | `…=default` | `not-exported` | `ill-typed`
                                 nested configuration along a chain of child members (dotted paths of `get`)
* `params_export_keys S`       → `n k₁ … kₙ`                        value keys of the default-constructed export, in order
* `params_unknown S k`         → `reported` | `accepted` | `ill-typed`
* `params_enum_print E e`      → the text `operator<<` prints
* `params_enum_parse E s`      → enumerator | `invalid`             (`invalid` = `std::invalid_argument`)
* `params_runtime E e`         → `same` | `unsupported` | `invalid`  does the printed name of `e` parse, and has every
                                 throwing wrapper switch a case for the parsed enumerator?
* `params_runtime_a2 E e v`    → the same answer; `v` names the replacement system matrix of the solve
                                 (`same` | `shift:k` | `scale:k` | `skew:k` | `coef:k` | `diag9:k`, k = 1..16).  The dispatch
                                 tables do not depend on the matrix handed to `operator()`, so the model's answer does not
                                 either; the numerical comparison is implementation-against-implementation in the harness.

`ill-typed` = the struct's import/export macros do not match the member kinds, i.e. the C++ does not compile when
instantiated (the harness probes such structs in a separate translation unit).
-/
namespace Amgcl.Driver.Params
open Amgcl Amgcl.Driver Amgcl.Params Amgcl.Generated

def findTable (s : String) : Option ParamTable := paramTables.find? (·.name = s)
def findEnum (s : String) : Option EnumTable := enumTables.find? (·.name = s)

/-- `preconditioner::side::type` → the enum table `preconditioner::side` -/
def enumOfCtype (ctype : String) : Option EnumTable :=
  let parts := ctype.splitOn "::"
  if parts.getLast? = some "type" then findEnum ("::".intercalate parts.dropLast) else findEnum ctype

def dflt : String → String := fun _ => "default"

def showList (l : List String) : String := joinSp (toString l.length :: l)

def roundtrip (t : ParamTable) (f v : String) : String :=
  let prm := t.importT dflt (PTree.empty.put f v)
  let out := t.exportT ParamTable.rawChildExp prm PTree.empty
  match out.get? f with
  | some x => f ++ "=" ++ x
  | none => "not-exported"

def exportKeys (t : ParamTable) : List String :=
  let out := t.exportT ParamTable.rawChildExp (t.importT dflt PTree.empty) PTree.empty
  (out.kids.filter (fun kc => kc.2.data ≠ "")).map (·.1)

/-- `c=table` tokens of a `params_nested` op -/
def parseChain : List String → Option (List (String × String))
  | [] => some []
  | tk :: rest => match tk.splitOn "=" with
    | [c, tn] => (parseChain rest).map ((c, tn) :: ·)
    | _ => none

def nested (t : ParamTable) (chain : List (String × String)) (f v : String) : String :=
  let tabs := chain.map fun (_, tn) => findTable tn
  if tabs.any Option.isNone then badInput else
  let all := t :: tabs.filterMap id
  if all.any (fun x => !x.wellTyped) then "ill-typed" else
  match all.getLast? with
  | none => badInput
  | some last =>
    match last.kindOf f with
    | none => badInput
    | some Kind.child => badInput
    | some _ =>
      match ParamTable.exportAlong findTable dflt t chain f v [] PTree.empty with
      | none => badInput
      | some out =>
        let path := chain.map (·.1) ++ [f]
        match out.getPath? path with
        | some x => ".".intercalate path ++ "=" ++ x
        | none => "not-exported"

/-- replacement-matrix token of `params_runtime_a2`: `same` or `kind:k` with a canonical decimal `1 ≤ k ≤ 16` -/
def variantOk (v : String) : Bool :=
  v = "same" ||
  match v.splitOn ":" with
  | [kind, num] =>
    ["shift", "scale", "skew", "coef", "diag9"].contains kind &&
    (match num.toNat? with
     | some k => toString k = num && 1 ≤ k && k ≤ 16
     | none => false)
  | _ => false

/-- does the printed name of enumerator `x` parse, and has every throwing wrapper switch a case for it? -/
def runtimeAnswer (e x : String) : String :=
  match findEnum e with
  | none => badInput
  | some E =>
    if !E.values.contains x then badInput else
    -- the harness configures the wrapper with the text `operator<<` prints for the enumerator
    match E.parse (E.print x) with
    | none => "invalid"
    | some e => if E.covered e then "same" else "unsupported"

def two : P (String × String) := do let a ← tok; let b ← tok; pure (a, b)
def three : P (String × String × String) := do let a ← tok; let b ← tok; let c ← tok; pure (a, b, c)

def handle (op : String) (args : List String) : Option String :=
  match op with
  | "params_compiles" => withArgs tok args fun s =>
      match findTable s with
      | none => badInput
      | some t => if t.wellTyped then "yes" else "no"
  | "params_fields" => withArgs tok args fun s =>
      match findTable s with
      | none => badInput
      | some t => showList ((t.fields.map fun f => f.name ++ ":" ++ f.kind.toString).mergeSort (· ≤ ·))
  | "params_roundtrip" => withArgs three args fun (s, f, v) =>
      match findTable s with
      | none => badInput
      | some t =>
        match t.kindOf f with
        | none => badInput
        | some Kind.child => badInput
        | some Kind.enum =>
          -- the legal texts of an enum member are the names its run-time enum parses
          if !t.wellTyped then "ill-typed" else
          match (t.fields.find? (·.name = f)).bind (fun fd => enumOfCtype fd.ctype) with
          | none => badInput
          | some E => if (E.parse v).isNone then "invalid" else roundtrip t f v
        | some _ => if !t.wellTyped then "ill-typed" else roundtrip t f v
  | "params_nested" =>
      -- params_nested Root c₁=T₁ … cₖ=Tₖ field value
      match args with
      | root :: rest =>
        if rest.length < 2 then some badInput else
        let v := rest.getLast!
        let f := rest.dropLast.getLast!
        match findTable root, parseChain (rest.dropLast.dropLast) with
        | some t, some chain => some (nested t chain f v)
        | _, _ => some badInput
      | [] => some badInput
  | "params_export_keys" => withArgs tok args fun s =>
      match findTable s with
      | none => badInput
      | some t => if !t.wellTyped then "ill-typed" else showList (exportKeys t)
  | "params_unknown" => withArgs two args fun (s, k) =>
      match findTable s with
      | none => badInput
      | some t =>
        if !t.wellTyped then "ill-typed"
        else if (t.unknownT (PTree.empty.put k "1")).isEmpty then "accepted" else "reported"
  | "params_enum_print" => withArgs two args fun (e, x) =>
      match findEnum e with
      | none => badInput
      | some E => if E.values.contains x then E.print x else badInput
  | "params_enum_parse" => withArgs two args fun (e, s) =>
      match findEnum e with
      | none => badInput
      | some E => (E.parse s).getD "invalid"
  | "params_runtime" => withArgs two args fun (e, x) => runtimeAnswer e x
  | "params_runtime_a2" => withArgs three args fun (e, x, v) =>
      if variantOk v then runtimeAnswer e x else badInput
  | _ => none

end Amgcl.Driver.Params
