import Amgcl.Driver.Solvers2
import Amgcl.Model.LockstepBiCGStabL
import Amgcl.Model.LockstepIDRs
/-!
# Driver: the BiCGStab(L) / IDR(s) PROGRAMS of C12 (`Model/LockstepBiCGStabL.lean`, `Model/LockstepIDRs.lean`)

    lockstep_bicgstabl  side L delta convex maxiter tol abstol ns          A PREC f x0
    lockstep_idrs       s omega smoothing replacement maxiter tol abstol ns   A PREC f x0  RAW

Same arguments and the same output line as `solve_bicgstabl` / `solve_idrs` of `Driver/Solvers2.lean`, but the answer is
computed by the SERIAL semantics `Lockstep.run` of the instruction-set programs (for IDR(s): constructor program on the
raw vectors followed by `operator()`), not by the statement-by-statement models `Solver.BiCGStabL.run` /
`Solver.IDRs.run`.  The harness `h_lockstep.cpp` answers these ops with the REAL serial templates at the exact rational
type, so the correspondence ties the programs the lockstep theorem (C12e) is instantiated with directly to the code.
-/
namespace Amgcl.Driver.LockstepKry
open Amgcl Amgcl.Driver Amgcl.Solver Amgcl.Driver.Solvers Amgcl.Driver.Solvers2 Amgcl.Lockstep

def bicgstablOut (p : BiCGStabL.Params Rat) (c : Call) : String :=
  let s := run c.A c.prec.apply ip (Lockstep.BiCGStabL.prog p rsqrt machEps c07)
    (Lockstep.BiCGStabL.initState (BiCGStabL.Work.fresh c.A.nrows) c.f c.x0)
  showObs (Lockstep.BiCGStabL.outOf s.scal, s.vec Lockstep.BiCGStabL.vX)

def idrsOut (p : IDRs.Params Rat) (raw : List (Vec Rat)) (c : Call) : String :=
  let s := run c.A c.prec.apply ip (Lockstep.IDRs.ctorThenSolve p rsqrt machEps)
    (Lockstep.IDRs.initState (rawMap raw) (IDRs.Work.fresh c.A.nrows) c.f c.x0)
  showObs (Lockstep.IDRs.outOf s.scal, s.vec Lockstep.IDRs.vX)

def handle (op : String) (args : List String) : Option String :=
  match op with
  | "lockstep_bicgstabl" =>
    withArgs (do let p ← pBiCGStabLPrm; let c ← pCall; pure (p, c)) args
      fun (p, c) => if decide (1 ≤ p.L) && c.ok then bicgstablOut p c else badInput
  | "lockstep_idrs" =>
    withArgs (do let p ← pIDRsPrm; let c ← pCall; let raw ← pMany p.s pVec; pure (p, c, raw)) args
      fun (p, c, raw) =>
        if decide (1 ≤ p.s) && c.ok && raw.all (fun v => v.size == c.A.nrows) then idrsOut p raw c else badInput
  | _ => none

end Amgcl.Driver.LockstepKry
