import Amgcl.Driver.Util
import Amgcl.Model.RigidBodyModes
import Amgcl.Model.CoarseningChecks
import Amgcl.Model.PointwiseAggregates
import Amgcl.Model.ParamGlue
/-!
Line protocol of the rigid-body-mode model (harness/h_rbm.cpp).  `rigid_body_modes` computes in `double` whatever
the coordinate type, so the op lines carry the implementation's output (exact rational values of the doubles) and the
driver compares it with the model run at `Rat` with the rational square root `psqrt` (`⌊√(q·4^60)⌋/2^60`), entrywise
up to `tol`:
```
rbm_modes      ndim transpose tol coo[] B0[] B[]          -> precondition | nmodes close
rbm_degenerate ndim transpose coo[] B0[]                  -> precondition | nonfinite | finite
rbm_ptent      ndim tol eps A coo[] B[] P Bc[]            -> empty_level | count id[] close shape repro ortho
rbm_nsparams   cols B[]                                   -> precondition | cols B[]
```
`rbm_nsparams`: the property-tree constructor of `nullspace_params` copies `rows * cols` values from the pointer `B`.
`B0` is what the caller's vector holds on entry (`B.resize` keeps it).  `rbm_degenerate`: `nonfinite` iff some
divisor `s` of the normalisation is zero while the column has rows (`0/0` in `double`).  `rbm_ptent`: the aggregates of the model
`pointwiseAggregates` (`block_size = ndim`, `min_aggregate = nmodes`), `B` close to the
model's rigid body modes of `coo` (row-major), and the V-grade predicates of `Model/CoarseningChecks.lean` on the
implementation's `P_tent` / `B_coarse` with `block_size = ndim`, `cols = nmodes`.
-/
namespace Amgcl.Driver.RigidBodyModes
open Amgcl Amgcl.Driver Amgcl.ParamGlue Amgcl.Coarsening

def qabs (x : Rat) : Rat := if x < 0 then -x else x

/-- a rational square root good to `2^-60` (absolute) -/
def psqrt (q : Rat) : Rat :=
  if q ≤ 0 then 0 else
    let t := (q.num.toNat * 4 ^ 60) / q.den
    Rat.divInt (Nat.sqrt t : Int) ((2 ^ 60 : Nat) : Int)

def pFlag : P Bool := do
  let t ← tok
  if t == "0" then pure false else if t == "1" then pure true else fail

def closeTo (tol : Rat) (a b : Array Rat) : Bool :=
  a.size == b.size && (List.range a.size).all fun t => Coarsening.within tol (a.getD t 0 - b.getD t 0)

def handle (op : String) (args : List String) : Option String :=
  match op with
  | "rbm_modes" => withArgs (do
        let ndim ← pNat; let tr ← pFlag; let tol ← pRat; let coo ← pVec; let B0 ← pVec; let B ← pVec; pEnd
        pure (ndim, tr, tol, coo, B0, B)) args
      fun (ndim, tr, tol, coo, B0, B) =>
        match RBM.rigidBodyModes psqrt ndim coo B0 tr with
        | .ok (nm, Bm) => joinSp [toString nm, showBool (closeTo tol Bm B)]
        | _ => "precondition"
  | "rbm_degenerate" => withArgs (do
        let ndim ← pNat; let tr ← pFlag; let coo ← pVec; let B0 ← pVec; pEnd
        pure (ndim, tr, coo, B0)) args
      fun (ndim, tr, coo, B0) =>
        match RBM.rigidBodyModesFull psqrt ndim coo B0 tr with
        | .ok (_, _, ss) => if coo.size > 0 && ss.any (· == 0) then "nonfinite" else "finite"
        | _ => "precondition"
  | "rbm_ptent" => withArgs (do
        let ndim ← pNat; let tol ← pRat; let eps ← pRat; let A ← pCRS; let coo ← pVec; let B ← pVec
        let P ← pCRS; let Bc ← pVec; pEnd
        pure (ndim, tol, eps, A, coo, B, P, Bc)) args
      fun (ndim, tol, eps, A, coo, B, P, Bc) =>
        match RBM.rigidBodyModes psqrt ndim coo #[] false, f32Square eps with
        | .ok (cols, Bm), some e2 =>
          if A.wfb && A.nrows == A.ncols && A.nrows == coo.size then
            match pointwiseAggregates qabs e2 ndim cols A with
            | .ok ag =>
              let na := ag.count; let id := ag.id
              if B.size == id.size * cols && P.wfb && P.ncols == (na / ndim) * cols
                  && Bc.size == (na / ndim) * cols * cols then
                joinSp [toString na, showIntVec id,
                        showBool (closeTo tol Bm B), showBool (Coarsening.ptentShape ndim cols id P),
                        showBool (Coarsening.reproducesB tol cols id P Bc B), showBool (Coarsening.orthonormalCols tol P)]
              else badInput
            | .emptyLevel => "empty_level"
            | .precondition => badInput
          else badInput
        | _, _ => badInput
  | "rbm_nsparams" => withArgs (do
        let cols ← pNat; let B ← pVec; pEnd
        pure (cols, B)) args
      fun (cols, B) =>
        -- tentative_prolongation.hpp:77-106: `B` set needs `cols > 0` and `rows > 0`; `B` not set needs `cols == 0`
        if B.size == 0 then (if cols == 0 then joinSp [toString cols, showVec B] else "precondition")
        else if cols == 0 then "precondition"
        else if B.size % cols != 0 then badInput
        else joinSp [toString cols, showVec B]
  | _ => none

end Amgcl.Driver.RigidBodyModes
