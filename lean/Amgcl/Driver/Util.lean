import Amgcl.Model.Basic
/-!
# Line-protocol utilities for the executable model (`amgcl_model`)

One request per line, tokens separated by single blanks:

* rational        `p` or `p/q` (reduced, `q > 1`, sign on `p`) — GMP's `mpq` text form
* natural / int   decimal
* vector          `n v₁ … vₙ`
* CRS matrix      `nrows ncols` then per row `k c₁ v₁ … c_k v_k` (stored order)

A handler gets the operation name and the remaining tokens and returns `none`
if the operation is not its own, `some line` otherwise (`bad-input` for anything
malformed — the model never defaults).
-/
namespace Amgcl.Driver

abbrev P := StateT (List String) Option

def tok : P String := fun s => match s with
  | [] => none
  | t :: ts => some (t, ts)

def fail {α} : P α := fun _ => none

def pNat : P Nat := do
  let t ← tok
  match t.toNat? with
  | some n => pure n
  | none => fail

def pInt : P Int := do
  let t ← tok
  match t.toInt? with
  | some n => pure n
  | none => fail

def parseRat (t : String) : Option Rat :=
  match t.splitOn "/" with
  | [p] => p.toInt?.map (fun n => (n : Rat))
  | [p, q] => do
      let n ← p.toInt?
      let d ← q.toNat?
      if d = 0 then none else some (Rat.divInt n d)
  | _ => none

def pRat : P Rat := do
  let t ← tok
  match parseRat t with
  | some q => pure q
  | none => fail

/-- rationals extended by an absorbing `POISON` element (models NaN/Inf left in an output buffer) -/
abbrev PRat := Option Rat
instance : Add PRat := ⟨fun a b => do pure ((← a) + (← b))⟩
instance : Sub PRat := ⟨fun a b => do pure ((← a) - (← b))⟩
instance : Mul PRat := ⟨fun a b => do pure ((← a) * (← b))⟩
instance : Zero PRat := ⟨some 0⟩
instance : One PRat := ⟨some 1⟩
instance : OfNat PRat 0 := ⟨some 0⟩
instance : OfNat PRat 1 := ⟨some 1⟩

def pPRat : P PRat := do
  let t ← tok
  if t = "POISON" then pure none else
  match parseRat t with
  | some q => pure (some q)
  | none => fail

def showPRat : PRat → String
  | none => "POISON"
  | some q => if q.den = 1 then toString q.num else toString q.num ++ "/" ++ toString q.den

def pMany {α} (n : Nat) (p : P α) : P (List α) :=
  match n with
  | 0 => pure []
  | n + 1 => do
      let a ← p
      let as ← pMany n p
      pure (a :: as)

def pVecOf {α} (p : P α) : P (Array α) := do
  let n ← pNat
  let l ← pMany n p
  pure l.toArray

def pVec : P (Vec Rat) := pVecOf pRat
def pPVec : P (Vec PRat) := pVecOf pPRat
def pNatVec : P (Array Nat) := pVecOf pNat
def pIntVec : P (Array Int) := pVecOf pInt

def pRowOf {α} (p : P α) : P (Row α) := do
  let k ← pNat
  pMany k (do let c ← pNat; let v ← p; pure (c, v))

def pCRSOf {α} (p : P α) : P (CRS α) := do
  let n ← pNat
  let m ← pNat
  let rows ← pMany n (pRowOf p)
  pure { ncols := m, rows := rows.toArray }

def pCRS : P (CRS Rat) := pCRSOf pRat
def pPCRS : P (CRS PRat) := pCRSOf pPRat

def pEnd : P Unit := fun s => match s with
  | [] => some ((), [])
  | _ => none

/-- run a parser on all tokens; all of them must be consumed -/
def runP {α} (p : P α) (args : List String) : Option α :=
  match (do let a ← p; pEnd; pure a : P α) args with
  | some (a, _) => some a
  | none => none

-- printing ------------------------------------------------------------------

def showRat (q : Rat) : String :=
  if q.den = 1 then toString q.num else toString q.num ++ "/" ++ toString q.den

def joinSp (l : List String) : String := " ".intercalate l

def showVecOf {α} (f : α → String) (v : Array α) : String :=
  joinSp (toString v.size :: v.toList.map f)

def showVec (v : Vec Rat) : String := showVecOf showRat v
def showPVec (v : Vec PRat) : String := showVecOf showPRat v
def showNatVec (v : Array Nat) : String := showVecOf toString v
def showIntVec (v : Array Int) : String := showVecOf toString v

def showRowOf {α} (f : α → String) (r : Row α) : String :=
  joinSp (toString r.length :: r.map (fun cv => toString cv.1 ++ " " ++ f cv.2))

def showCRSOf {α} (f : α → String) (A : CRS α) : String :=
  joinSp (toString A.nrows :: toString A.ncols :: A.rows.toList.map (showRowOf f))

def showCRS (A : CRS Rat) : String := showCRSOf showRat A

def showBool (b : Bool) : String := if b then "1" else "0"

def badInput : String := "bad-input"

/-- the usual shape of a handler body -/
def withArgs {α} (p : P α) (args : List String) (k : α → String) : Option String :=
  match runP p args with
  | some a => some (k a)
  | none => some badInput

end Amgcl.Driver
