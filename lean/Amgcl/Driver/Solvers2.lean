import Amgcl.Driver.Solvers
import Amgcl.Model.SolverGMRES
import Amgcl.Model.SolverFGMRES
import Amgcl.Model.SolverLGMRES
import Amgcl.Model.SolverIDRs
import Amgcl.Model.SolverBiCGStabL
/-!
Handlers for the Krylov solvers GMRES / FGMRES / LGMRES / IDR(s) / BiCGStab(L) (C01, C05, C15).

    solve_gmres      side M maxiter tol abstol ns                       A PREC f x0
    solve_fgmres     M maxiter tol abstol ns                            A PREC f x0
    solve_lgmres     side M K always_reset maxiter tol abstol ns        A PREC f x0
    lgmres_vs_gmres  side M K always_reset maxiter tol abstol ns        A PREC f x0     the result of `solve_lgmres`; the harness
                     additionally runs the real `gmres` with restart length `M + K` (C05f `lgmres_first_cycle_refines_gmres`)
    solve_idrs       s omega smoothing replacement maxiter tol abstol ns   A PREC f x0  RAW
    solve_bicgstabl  side L delta convex maxiter tol abstol ns          A PREC f x0
    bicgstabl_vs_bicgstab  <as solve_bicgstabl>                         the result of `solve_bicgstabl`; the harness additionally
                     runs the real `bicgstab` when `L = 1` (C05h `bicgstabl_L1_is_bicgstab`)
    hist_gmres | hist_fgmres | hist_lgmres | hist_bicgstabl   <params as above>  n k (A PREC f x0)^k
    hist_idrs        <params as above>  n k RAW (A PREC f x0)^k

    dblhist_gmres | dblhist_fgmres | dblhist_lgmres | dblhist_idrs | dblhist_bicgstabl  <params> n k (A PREC f x0)^k
                     a labelled double-precision TEST executed by the harness only (history through overflowing calls on
                     one real object vs fresh objects, compared bitwise); the model validates the shape of the line and
                     answers the constant `ok`

`RAW` = the `s` random vectors (each `n v₁ … vₙ`) the constructor of `idrs` draws before it orthonormalises them
into the shadow space `P` (`IDRs.makeP`); they are an input of the model.

`side`, booleans, `PREC`, the result format and the meaning of `hist_*` are those of `Driver/Solvers.lean`.
`M ≥ 1`, `s ≥ 1`, `L ≥ 1` are required (`bad-input` otherwise): with `M = 0` the real code indexes `H(0, 0)` of an
array with zero columns; `L = 0` is rejected by the constructor of `bicgstabl`.
-/
namespace Amgcl.Driver.Solvers2
open Amgcl Amgcl.Driver Amgcl.Solver Amgcl.Driver.Solvers

def pGMRESPrm : P (GMRES.Params Rat) := do
  let side ← pSide; let M ← pNat; let c ← pCommon
  pure { c with M := M, pside := side }

def pFGMRESPrm : P (FGMRES.Params Rat) := do
  let M ← pNat; let c ← pCommon
  pure { c with M := M }

def pLGMRESPrm : P (LGMRES.Params Rat) := do
  let side ← pSide; let M ← pNat; let K ← pNat; let ar ← pBool; let c ← pCommon
  pure { c with M := M, K' := K, alwaysReset := ar, pside := side }

def pIDRsPrm : P (IDRs.Params Rat) := do
  let s ← pNat; let omega ← pRat; let sm ← pBool; let rp ← pBool; let c ← pCommon
  pure { c with s := s, omega := omega, smoothing := sm, replacement := rp }

def pBiCGStabLPrm : P (BiCGStabL.Params Rat) := do
  let side ← pSide; let L ← pNat; let delta ← pRat; let cv ← pBool; let c ← pCommon
  pure { c with L := L, delta := delta, convex := cv, pside := side }

/-- the exact value of the `double` literal `0.7` (bicgstabl.hpp:357-358), which `Q(double)` converts exactly -/
def c07 : Rat := Rat.divInt 3152519739159347 4503599627370496

/-- the raw random vectors as a total map (index ≥ s: empty, never read) -/
def rawMap (raw : List (Vec Rat)) : FArr (Vec Rat) := ⟨fun i => raw.getD i #[]⟩

def idrsStep (prm : IDRs.Params Rat) (raw : List (Vec Rat)) :=
  strStep (IDRs.call prm ip rsqrt machEps (IDRs.makeP ip rsqrt prm.s (rawMap raw)))
def bicgstablStep (prm : BiCGStabL.Params Rat) := strStep (BiCGStabL.call prm ip rsqrt machEps c07)

def gmresStep (prm : GMRES.Params Rat) := strStep (GMRES.call prm ip rsqrt machEps)
def fgmresStep (prm : FGMRES.Params Rat) := strStep (FGMRES.call prm ip rsqrt machEps)
def lgmresStep (prm : LGMRES.Params Rat) := strStep (LGMRES.call prm ip rsqrt machEps)

/-- a single solve: parameters (with a validity test), one call, a fresh object -/
def solveOp {α W} (pp : P α) (okp : α → Bool) (step : α → W → Call → String × W) (fresh : α → Nat → W)
    (args : List String) : Option String :=
  withArgs (do let p ← pp; let c ← pCall; pure (p, c)) args
    fun (p, c) => if okp p && c.ok then (step p (fresh p c.A.nrows) c).1 else badInput

def histOp {α W} (pp : P α) (okp : α → Bool) (step : α → W → Call → String × W) (fresh : α → Nat → W)
    (args : List String) : Option String :=
  withArgs (pHist pp) args
    fun (p, n, cs) => if okp p then histOut (step p) (fresh p n) n cs else badInput

/-- the double-precision history test: only the shape of the line is validated here -/
def dblOp {α} (pp : P α) (okp : α → Bool) (args : List String) : Option String :=
  withArgs (pHist pp) args
    fun (p, n, cs) => if okp p && cs.all (fun c => c.ok && c.A.nrows == n) then "ok" else badInput

def handle (op : String) (args : List String) : Option String :=
  match op with
  | "solve_gmres" => solveOp pGMRESPrm (fun p => decide (1 ≤ p.M)) gmresStep (fun _ n => GMRES.Work.fresh n) args
  | "solve_fgmres" => solveOp pFGMRESPrm (fun p => decide (1 ≤ p.M)) fgmresStep (fun _ n => FGMRES.Work.fresh n) args
  | "solve_lgmres" => solveOp pLGMRESPrm (fun p => decide (1 ≤ p.M)) lgmresStep (fun _ n => LGMRES.Work.fresh n) args
  | "lgmres_vs_gmres" => solveOp pLGMRESPrm (fun p => decide (1 ≤ p.M)) lgmresStep (fun _ n => LGMRES.Work.fresh n) args
  | "hist_gmres" => histOp pGMRESPrm (fun p => decide (1 ≤ p.M)) gmresStep (fun _ n => GMRES.Work.fresh n) args
  | "hist_fgmres" => histOp pFGMRESPrm (fun p => decide (1 ≤ p.M)) fgmresStep (fun _ n => FGMRES.Work.fresh n) args
  | "hist_lgmres" => histOp pLGMRESPrm (fun p => decide (1 ≤ p.M)) lgmresStep (fun _ n => LGMRES.Work.fresh n) args
  | "solve_bicgstabl" => solveOp pBiCGStabLPrm (fun p => decide (1 ≤ p.L)) bicgstablStep
      (fun _ n => BiCGStabL.Work.fresh n) args
  | "bicgstabl_vs_bicgstab" => solveOp pBiCGStabLPrm (fun p => decide (1 ≤ p.L)) bicgstablStep
      (fun _ n => BiCGStabL.Work.fresh n) args
  | "hist_bicgstabl" => histOp pBiCGStabLPrm (fun p => decide (1 ≤ p.L)) bicgstablStep
      (fun _ n => BiCGStabL.Work.fresh n) args
  | "solve_idrs" =>
    withArgs (do let p ← pIDRsPrm; let c ← pCall; let raw ← pMany p.s pVec; pure (p, c, raw)) args
      fun (p, c, raw) =>
        if decide (1 ≤ p.s) && c.ok && raw.all (fun v => v.size == c.A.nrows) then
          (idrsStep p raw (IDRs.Work.fresh c.A.nrows) c).1
        else badInput
  | "hist_idrs" =>
    withArgs (do let p ← pIDRsPrm; let n ← pNat; let k ← pNat; let raw ← pMany p.s pVec
                 let cs ← pMany k pCall; pure (p, n, raw, cs)) args
      fun (p, n, raw, cs) =>
        if decide (1 ≤ p.s) && raw.all (fun v => v.size == n) then
          histOut (idrsStep p raw) (IDRs.Work.fresh n) n cs
        else badInput
  | "dblhist_gmres" => dblOp pGMRESPrm (fun p => decide (1 ≤ p.M)) args
  | "dblhist_fgmres" => dblOp pFGMRESPrm (fun p => decide (1 ≤ p.M)) args
  | "dblhist_lgmres" => dblOp pLGMRESPrm (fun p => decide (1 ≤ p.M)) args
  | "dblhist_idrs" => dblOp pIDRsPrm (fun p => decide (1 ≤ p.s)) args
  | "dblhist_bicgstabl" => dblOp pBiCGStabLPrm (fun p => decide (1 ≤ p.L)) args
  | _ => none

end Amgcl.Driver.Solvers2
