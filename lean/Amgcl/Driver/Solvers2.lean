import Amgcl.Driver.Solvers
import Amgcl.Model.SolverGMRES
import Amgcl.Model.SolverFGMRES
import Amgcl.Model.SolverLGMRES
/-!
Handlers for the Krylov solvers GMRES / FGMRES / LGMRES / IDR(s) / BiCGStab(L) (C01, C05, C15).

    solve_gmres      side M maxiter tol abstol ns                       A PREC f x0
    solve_fgmres     M maxiter tol abstol ns                            A PREC f x0
    solve_lgmres     side M K always_reset maxiter tol abstol ns        A PREC f x0
    hist_gmres | hist_fgmres | hist_lgmres   <params as above>  n k (A PREC f x0)^k

`side`, booleans, `PREC`, the result format and the meaning of `hist_*` are those of `Driver/Solvers.lean`.
`M ≥ 1` is required (`bad-input` otherwise): with `M = 0` the real code indexes `H(0, 0)` of an array with zero
columns.
-/
namespace Amgcl.Driver.Solvers2
open Amgcl Amgcl.Driver Amgcl.Solver Amgcl.Driver.Solvers

def pGMRESPrm : P (GMRES.Params Rat) := do
  let side ← pSide; let M ← pNat; let c ← pCommon
  pure { c with M := M, pside := side }

def pFGMRESPrm : P (FGMRES.Params Rat) := do
  let M ← pNat; let c ← pCommon
  pure { c with M := M }

def pLGMRESPrm : P (LGMRES.Params Rat) := do
  let side ← pSide; let M ← pNat; let K ← pNat; let ar ← pBool; let c ← pCommon
  pure { c with M := M, K' := K, alwaysReset := ar, pside := side }

def gmresStep (prm : GMRES.Params Rat) := strStep (GMRES.call prm ip rsqrt machEps)
def fgmresStep (prm : FGMRES.Params Rat) := strStep (FGMRES.call prm ip rsqrt machEps)
def lgmresStep (prm : LGMRES.Params Rat) := strStep (LGMRES.call prm ip rsqrt machEps)

/-- a single solve: parameters (with a validity test), one call, a fresh object -/
def solveOp {α W} (pp : P α) (okp : α → Bool) (step : α → W → Call → String × W) (fresh : α → Nat → W)
    (args : List String) : Option String :=
  withArgs (do let p ← pp; let c ← pCall; pure (p, c)) args
    fun (p, c) => if okp p && c.ok then (step p (fresh p c.A.nrows) c).1 else badInput

def histOp {α W} (pp : P α) (okp : α → Bool) (step : α → W → Call → String × W) (fresh : α → Nat → W)
    (args : List String) : Option String :=
  withArgs (pHist pp) args
    fun (p, n, cs) => if okp p then histOut (step p) (fresh p n) n cs else badInput

def handle (op : String) (args : List String) : Option String :=
  match op with
  | "solve_gmres" => solveOp pGMRESPrm (fun p => decide (1 ≤ p.M)) gmresStep (fun _ n => GMRES.Work.fresh n) args
  | "solve_fgmres" => solveOp pFGMRESPrm (fun p => decide (1 ≤ p.M)) fgmresStep (fun _ n => FGMRES.Work.fresh n) args
  | "solve_lgmres" => solveOp pLGMRESPrm (fun p => decide (1 ≤ p.M)) lgmresStep (fun _ n => LGMRES.Work.fresh n) args
  | "hist_gmres" => histOp pGMRESPrm (fun p => decide (1 ≤ p.M)) gmresStep (fun _ n => GMRES.Work.fresh n) args
  | "hist_fgmres" => histOp pFGMRESPrm (fun p => decide (1 ≤ p.M)) fgmresStep (fun _ n => FGMRES.Work.fresh n) args
  | "hist_lgmres" => histOp pLGMRESPrm (fun p => decide (1 ≤ p.M)) lgmresStep (fun _ n => LGMRES.Work.fresh n) args
  | _ => none

end Amgcl.Driver.Solvers2
