import Amgcl.Driver.Util
import Amgcl.Model.CuthillMcKee
import Amgcl.Model.SkylineLU
/-!
Handlers for the Cuthill–McKee part of C16 (harness/h_cmk.cpp): the faithful model `CMK.get` of
`amgcl::reorder::cuthill_mckee<rev>::get` is run on the same sparsity pattern as the real code and prints the
permutation, so that the correspondence is EQUALITY of the permutation.

* `direct_cmk rev A`            pattern of the CRS matrix `A` in stored order (values are never looked at)
* `direct_cmk_pat rev n code`   compact form for exhaustive enumeration: entry `(i,j)` is stored iff bit `i*n+j` of `code`
                                is set, rows in increasing column order
* `direct_cmk_pats rev n k code₁ … code_k`   the same for `k` patterns in one request (result lines concatenated)

* `direct_sky_empty kind`      `skyline_lu` (kind 0) / `amg` (kind 1, = its coarsest-level `skyline_lu`) on a 0×0 system:
                                `CMK.get` + `Skyline.constructAndSolve` on the empty matrix (the harness checks that the
                                real code survives)

Result line: `ok n p₀ … p_{n-1}` (`ok 0` for the empty matrix) or one of the outcomes `oob`, `precondition`, `fuel`.
-/
namespace Amgcl.Driver.Cmk
open Amgcl Amgcl.Driver

def showRes : CMK.Res (Array Nat) → String
  | .ok p => joinSp ["ok", showNatVec p]
  | .precondition => "precondition"
  | .oob => "oob"
  | .fuel => "fuel"

def run {K : Type} (rev : Nat) (A : CRS K) : String :=
  if !(rev ≤ 1 && A.ncols == A.nrows && A.wfb) then badInput else
  showRes (CMK.get (rev == 1) A (Array.replicate A.nrows 0))

def patMatrix (n code : Nat) : CRS Rat :=
  { ncols := n
    rows := Array.ofFn (n := n) fun i =>
      (List.range n).filterMap fun j => if code.testBit (i.val * n + j) then some (j, (1 : Rat)) else none }

def handle (op : String) (args : List String) : Option String :=
  match op with
  | "direct_cmk" =>
    withArgs (do let rev ← pNat; let A ← pCRS; pure (rev, A)) args fun (rev, A) => run rev A
  | "direct_cmk_pat" =>
    withArgs (do let rev ← pNat; let n ← pNat; let code ← pNat; pure (rev, n, code)) args fun (rev, n, code) =>
      if !(n ≤ 7 && code < 2 ^ (n * n)) then badInput else run rev (patMatrix n code)
  | "direct_cmk_pats" =>
    withArgs (do let rev ← pNat; let n ← pNat; let k ← pNat
                 if !(1 ≤ k && k ≤ 64) then (fail : P Unit)
                 let codes ← pMany k pNat; pure (rev, n, codes)) args fun (rev, n, codes) =>
      if !(rev ≤ 1 && n ≤ 7 && codes.all (fun code => decide (code < 2 ^ (n * n)))) then badInput else
      joinSp (codes.map fun code => run rev (patMatrix n code))
  | "direct_sky_empty" =>
    withArgs pNat args fun kind =>
      if kind > 1 then badInput else
      -- constructor of `skyline_lu` on the empty matrix with its default ordering, then `operator()` on empty vectors
      let A : CRS Rat := ⟨0, #[]⟩
      match CMK.get false A #[] with
      | .ok perm =>
        match Skyline.constructAndSolve (V := Rat) (R := Rat) (fun v => v == 0) (fun v => 1 / v) A perm none #[] #[] with
        | .ok (_, x) => if x.size == 0 then "ok" else "bad-size"
        | .precondition => "precondition"
      | .precondition => "precondition"
      | .oob => "oob"
      | .fuel => "fuel"
  | _ => none

end Amgcl.Driver.Cmk
