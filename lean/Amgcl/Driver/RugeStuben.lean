import Amgcl.Driver.Util
import Amgcl.Model.RugeStuben
import Amgcl.Model.ParamGlue
import Amgcl.Model.Amg
/-!
handlers for the faithful Ruge–Stuben model (C04 / C10 / C03)

```
rs_transfer eps_strong do_trunc eps_trunc A
    -> cf=<marks> sval <flags> sptr <n+1 ptrs> scol <cols> P <CRS>          (or `… empty_level` instead of `P <CRS>`)
rs_coarse   eps_strong do_trunc eps_trunc A
    -> R <CRS> Ac <CRS> | empty_level         (R = transpose(P), Ac = galerkin(A, P, R), marker SpGEMM, stored order)
```
`eps_strong`, `eps_trunc` are the exact rational values of the `float` parameters; the machine constant is
`eps = 2·2^-52`.  The arrays the code leaves uninitialised start from the fixed garbage below (the theorems of
C10b show the result does not depend on it).
-/
namespace Amgcl.Driver.RugeStuben
open Amgcl Amgcl.Driver Amgcl.ParamGlue Amgcl.RS

def qabs (x : Rat) : Rat := if x < 0 then -x else x

def machEps : Rat := Rat.divInt 1 ((2 ^ 51 : Nat) : Int)

def garbage : Garbage Rat :=
  { sptr := fun j => 7001 + 13 * j, sval := fun i k => (i + k) % 2 == 0, scol := fun j => 900001 + j,
    pent := fun i k => (800001 + i + k, Rat.divInt 22 7) }

def pBool : P Bool := do
  let t ← tok
  if t = "0" then pure false else if t = "1" then pure true else fail

def showCF : CF → String
  | .U => "U" | .C => "C" | .F => "F"

def showMarks (cf : Array CF) : String := "cf=" ++ String.join (cf.toList.map showCF)

def showFlags (S : Array (List Bool)) : String :=
  let fl := S.toList.flatten
  joinSp (toString fl.length :: fl.map showBool)

def squareWf (A : CRS Rat) : Bool := A.wfb && A.nrows == A.ncols

def pArgs : P (Rat × Bool × Rat × CRS Rat) := do
  let e ← pRat; let tr ← pBool; let et ← pRat; let A ← pCRS
  pure (e, tr, et, A)

def okArgs (e et : Rat) (A : CRS Rat) : Bool :=
  squareWf A && (ratToF32 e).isSome && (ratToF32 et).isSome

def handle (op : String) (args : List String) : Option String :=
  match op with
  | "rs_transfer" => withArgs pArgs args fun (e, tr, et, A) =>
      if okArgs e et A then
        let r := transferFull garbage qabs e tr et machEps A
        joinSp [showMarks r.cf, "sval", showFlags r.S.val, "sptr", showNatVec r.S.ptr, "scol", showNatVec r.S.col,
          match r.P with
          | .ok P => "P " ++ showCRS P
          | .emptyLevel => "empty_level"
          | .precondition => "precondition"]
      else badInput
  | "rs_coarse" => withArgs pArgs args fun (e, tr, et, A) =>
      if okArgs e et A then
        match transferOperators garbage qabs e tr et machEps A with
        | .ok (P, R) => joinSp ["R", showCRS R, "Ac", showCRS (Amg.galerkin 1 A P R)]
        | .emptyLevel => "empty_level"
        | .precondition => "precondition"
      else badInput
  | _ => none

end Amgcl.Driver.RugeStuben
