import Amgcl.Driver.Util
import Amgcl.Model.Primitives
/-! handlers for the C07 primitives -/
namespace Amgcl.Driver.Primitives
open Amgcl Amgcl.Driver

def sizesOk (A : CRS PRat) (x y : Vec PRat) : Bool :=
  A.wfb && x.size == A.ncols && y.size == A.nrows

def handle (op : String) (args : List String) : Option String :=
  match op with
  | "spmv" => withArgs (do let a ← pPRat; let A ← pPCRS; let x ← pPVec; let b ← pPRat; let y ← pPVec; pure (a, A, x, b, y)) args
      fun (a, A, x, b, y) => if sizesOk A x y then showPVec (spmv a A x b y) else badInput
  | "residual" => withArgs (do let f ← pPVec; let A ← pPCRS; let x ← pPVec; pure (f, A, x)) args
      fun (f, A, x) => if sizesOk A x f then showPVec (residual f A x) else badInput
  | "axpby" => withArgs (do let a ← pPRat; let x ← pPVec; let b ← pPRat; let y ← pPVec; pure (a, x, b, y)) args
      fun (a, x, b, y) => if x.size == y.size then showPVec (axpby a x b y) else badInput
  | "axpbypcz" => withArgs (do let a ← pPRat; let x ← pPVec; let b ← pPRat; let y ← pPVec; let c ← pPRat; let z ← pPVec; pure (a, x, b, y, c, z)) args
      fun (a, x, b, y, c, z) => if x.size == y.size && x.size == z.size then showPVec (axpbypcz a x b y c z) else badInput
  | "vmul" => withArgs (do let a ← pPRat; let x ← pPVec; let y ← pPVec; let b ← pPRat; let z ← pPVec; pure (a, x, y, b, z)) args
      fun (a, x, y, b, z) => if x.size == y.size && x.size == z.size then showPVec (vmul a x y b z) else badInput
  | "copy" => withArgs pPVec args fun x => showPVec (vcopy x)
  | "clear" => withArgs pNat args fun n => showPVec (vclear n)
  | "lin_comb" => withArgs (do
        let n ← pNat
        let cvs ← pMany n (do let c ← pPRat; let v ← pPVec; pure (c, v))
        let a ← pPRat; let y ← pPVec; pure (cvs, a, y)) args
      fun (cvs, a, y) =>
        if cvs.length ≥ 1 && cvs.all (fun cv => cv.2.size == y.size) then showPVec (linComb cvs a y) else badInput
  | "inner_product" => withArgs (do let nt ← pNat; let x ← pPVec; let y ← pPVec; pure (nt, x, y)) args
      fun (nt, x, y) => if x.size == y.size && nt ≥ 1 then showPRat (innerProduct id nt x y) else badInput
  | _ => none

end Amgcl.Driver.Primitives
