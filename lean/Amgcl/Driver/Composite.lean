import Amgcl.Driver.Util
import Amgcl.Model.Schur
import Amgcl.Model.CPR
import Amgcl.Model.Deflation
/-!
handlers for the composite preconditioners (C18).  Dense matrices are written `r c v₁₁ … v_rc` (row-major).

  comp_schur     nt type adjust_p approx_schur simplec_dia K pmask Umat Pmat f
  comp_schur_mv  nt adjust_p approx_schur simplec_dia K pmask Umat k (alpha beta x y){k} f xr
                 (k calls `spmv(alpha, S, x, beta, y)` of the matrix-free operator, then `residual(f, S, xr)`)
  comp_cpr       B active_rows K skind Smat Pmat f
  comp_cpr_upd   B active_rows K skind Smat Pmat f upd K2
  comp_cprb      B active_rows Kb skind Smat Pmat f            (Kb: CRS of row-major B×B blocks)
  comp_cprb_upd  B active_rows Kb skind Smat Pmat f upd Kb2
  comp_defl      nt A nvec Z₀ … Z_{nvec-1} pkind Pmat b x0
  comp_pmask     n pattern                                      (`pmask_pattern` → mask)

The inner solvers are the functions "multiply by the dense matrix of the op line" (`skind = 1`: point Jacobi of the
matrix the global preconditioner is constructed with, `pkind = 0`: `preconditioner::dummy`, the identity); the
harness passes inner solver classes that compute exactly these functions and log what they were constructed with.
-/
namespace Amgcl.Driver.Composite
open Amgcl Amgcl.Driver

structure DenseM where
  r : Nat
  c : Nat
  v : Array Rat

def pDense : P DenseM := do
  let r ← pNat; let c ← pNat
  let l ← pMany (r * c) pRat
  pure { r := r, c := c, v := l.toArray }

def DenseM.get (M : DenseM) (i j : Nat) : Rat := M.v.getD (i * M.c + j) 0

/-- `y = M x` -/
def DenseM.mulVec (M : DenseM) (x : Vec Rat) : Vec Rat :=
  Array.ofFn (n := M.r) (fun i => (List.range M.c).foldl (fun s j => s + M.get i.val j * x.getD j 0) 0)

def pBool : P Bool := do
  let n ← pNat
  if n = 0 then pure false else if n = 1 then pure true else fail

def pMask : P (Array Bool) := do
  let v ← pNatVec
  if v.all (fun b => b ≤ 1) then pure (v.map (fun b => b == 1)) else fail

def showOVec (o : Option (Vec Rat)) : String := match o with | none => "-" | some v => showVec v
def showOCRS (o : Option (CRS Rat)) : String := match o with | none => "-" | some v => showCRS v

def squareWF (A : CRS Rat) : Bool := A.wfb && A.nrows == A.ncols

/-- is `A · B = I` for the dense `n × n` matrices given by entry functions? -/
def isInverse (n : Nat) (a b : Nat → Nat → Rat) : Bool :=
  (List.range n).all (fun i => (List.range n).all (fun j =>
    (List.range n).foldl (fun s k => s + a i k * b k j) 0 == (if i = j then 1 else 0)))

-- Schur ------------------------------------------------------------------------------------------------------

def schur (nt type adj : Nat) (approx simplec : Bool) (A : CRS Rat) (pm : Array Bool) (Um Pm : DenseM) (f : Vec Rat) :
    String :=
  if !(squareWF A && pm.size == A.nrows && f.size == A.nrows && nt ≥ 1 && (type == 1 || type == 2)) then badInput else
  let prm : Schur.Params := { type := type, approxSchur := approx, adjustP := adj, simplecDia := simplec }
  let S := Schur.init nt prm A pm
  if !(Um.r == S.nu && Um.c == S.nu && Pm.r == S.np && Pm.c == S.np) then badInput else
  if Schur.readsUninit prm S.dia then "uninit" else
  let U := Um.mulVec
  let Ps := Pm.mulVec
  let cols := (List.range S.np).map (fun j => S.sCol U j)
  let sEntry := fun (i j : Nat) => (cols.getD j #[]).getD i 0
  let sDense : Vec Rat := Array.ofFn (n := S.np * S.np) (fun q => sEntry (q.val / S.np) (q.val % S.np))
  let uex := isInverse S.nu (fun i k => S.Kuu.get i k) Um.get
  let pex := isInverse S.np sEntry Pm.get
  match S.apply U Ps f with
  | none => badInput
  | some x =>
    joinSp ["nu", toString S.nu, "np", toString S.np, "idx", showNatVec S.idx,
      "Kuu", showCRS S.Kuu, "Kup", showCRS S.Kup, "Kpu", showCRS S.Kpu, "KppP", showCRS S.KppP,
      "x2u", showCRS S.x2u, "x2p", showCRS S.x2p, "u2x", showCRS S.u2x, "p2x", showCRS S.p2x,
      "Ld", showOVec S.Ld, "Lm", showOCRS S.Lm, "M", showOVec S.M,
      "S", showVec sDense, "ex", showBool uex, showBool pex, "x", showVec x]

/-- the object as the operator the pressure solver iterates on: `spmv(α, S, x, β, y)` for arbitrary `α`, `β` and
`residual(f, S, xr)` -/
def schurMv (nt adj : Nat) (approx simplec : Bool) (A : CRS Rat) (pm : Array Bool) (Um : DenseM)
    (calls : List (Rat × Rat × Vec Rat × Vec Rat)) (f xr : Vec Rat) : String :=
  if !(squareWF A && pm.size == A.nrows && nt ≥ 1 && calls.length ≥ 1 && calls.length ≤ 64) then badInput else
  let prm : Schur.Params := { type := 1, approxSchur := approx, adjustP := adj, simplecDia := simplec }
  let S := Schur.init nt prm A pm
  if !(Um.r == S.nu && Um.c == S.nu) then badInput else
  if !(calls.all (fun c => c.2.2.1.size == S.np && c.2.2.2.size == S.np) && f.size == S.np && xr.size == S.np) then
    badInput else
  if Schur.readsUninit prm S.dia then "uninit" else
  let U := Um.mulVec
  joinSp (calls.flatMap (fun c => ["y", showVec (S.spmv U c.1 c.2.2.1 c.2.1 c.2.2.2)])
    ++ ["r", showVec (S.residual U f xr)])

-- CPR --------------------------------------------------------------------------------------------------------

/-- point Jacobi of the matrix the preconditioner is built with: `x_i = f_i / a_ii` (`a_ii` = denoted diagonal) -/
def jacobi (A : CRS Rat) (f : Vec Rat) : Vec Rat :=
  Array.ofFn (n := A.nrows) (fun i => f.getD i.val 0 / A.get i.val i.val)

def mkS (skind : Nat) (Sm : DenseM) : CRS Rat → Vec Rat → Vec Rat :=
  fun A => if skind = 1 then jacobi A else Sm.mulVec

def showState (st : CPR.State Rat) : List String :=
  ["np", toString st.np, "Fpp", showCRS st.Fpp, "Scatter", showCRS st.Scatter,
   "App", showNatVec (scanWidths st.appWidths).toArray, showCRS st.App]

def stateOutcome (st : CPR.State Rat) : Option String :=
  if st.zeroPivot then some "zero_pivot" else if st.uninit then some "uninit" else none

def scalarOk (B act : Nat) (A : CRS Rat) (skind : Nat) (Sm Pm : DenseM) (f : Vec Rat) : Bool :=
  let n := A.nrows
  let N := if act = 0 then n else act
  squareWF A && A.sortedb && B ≥ 1 && N ≤ n && N % B == 0 && f.size == n && skind ≤ 1 &&
    (skind == 1 || (Sm.r == n && Sm.c == n)) && Pm.r == N / B && Pm.c == N / B

def cprScalar (B act : Nat) (A : CRS Rat) (skind : Nat) (Sm Pm : DenseM) (f : Vec Rat) : String :=
  if !scalarOk B act A skind Sm Pm f then badInput else
  let st := CPR.initScalar A B act
  match stateOutcome st with
  | some o => o
  | none => joinSp (showState st ++ ["x", showVec (st.apply (mkS skind Sm) Pm.mulVec f)])

def cprScalarUpd (B act : Nat) (A : CRS Rat) (skind : Nat) (Sm Pm : DenseM) (f : Vec Rat) (upd : Bool) (A2 : CRS Rat) :
    String :=
  if !(scalarOk B act A skind Sm Pm f && squareWF A2 && A2.nodupb && A2.nrows == A.nrows) then badInput else
  let st := CPR.initScalar A B act
  match stateOutcome st with
  | some o => o
  | none =>
    let st2 := CPR.partialUpdateScalar st A2 B act upd
    match stateOutcome st2 with
    | some o => o
    | none =>
      joinSp ["x0", showVec (st.apply (mkS skind Sm) Pm.mulVec f), "Fpp", showCRS st2.Fpp,
              "x", showVec (st2.apply (mkS skind Sm) Pm.mulVec f)]

def pBlkCRS (B : Nat) : P (CRS (Array Rat)) := pCRSOf (do let l ← pMany (B * B) pRat; pure l.toArray)

def blockOk (B act : Nat) (A : CRS (Array Rat)) (skind : Nat) (Sm Pm : DenseM) (f : Vec Rat) : Bool :=
  let n := A.nrows
  let N := if act = 0 then n else act
  A.wfb && A.nrows == A.ncols && A.sortedb && B ≥ 2 && B ≤ 4 && N ≤ n && f.size == n * B && skind ≤ 1 &&
    (skind == 1 || (Sm.r == n * B && Sm.c == n * B)) && Pm.r == N && Pm.c == N

/-- do the block construction and the scalar construction on the expanded matrix agree?  (`Scatter` up to the
trailing empty rows of inactive unknowns) -/
def sameState (a b : CPR.State Rat) : Bool :=
  a.np == b.np && showCRS a.Fpp == showCRS b.Fpp && showCRS a.App == showCRS b.App &&
  a.appWidths == b.appWidths && a.Scatter.ncols == b.Scatter.ncols &&
  (List.range (max a.Scatter.nrows b.Scatter.nrows)).all (fun i => showRowOf showRat (a.Scatter.row i) == showRowOf showRat (b.Scatter.row i))

def cprBlock (B act : Nat) (A : CRS (Array Rat)) (skind : Nat) (Sm Pm : DenseM) (f : Vec Rat) : String :=
  if !blockOk B act A skind Sm Pm f then badInput else
  let st := CPR.initBlock A B act
  match stateOutcome st with
  | some o => o
  | none =>
    let x := st.apply (mkS skind Sm) Pm.mulVec f
    let ss := CPR.initScalar (CPR.expand B A) B (act * B)
    let xs := ss.apply (mkS skind Sm) Pm.mulVec f
    let eq := sameState st ss && stateOutcome ss == none && showVec x == showVec xs
    joinSp (showState st ++ ["x", showVec x, "eq", showBool eq])

def cprBlockUpd (B act : Nat) (A : CRS (Array Rat)) (skind : Nat) (Sm Pm : DenseM) (f : Vec Rat) (upd : Bool)
    (A2 : CRS (Array Rat)) : String :=
  if !(blockOk B act A skind Sm Pm f && A2.wfb && A2.nrows == A2.ncols && A2.nodupb && A2.nrows == A.nrows) then badInput else
  let st := CPR.initBlock A B act
  match stateOutcome st with
  | some o => o
  | none =>
    let st2 := CPR.partialUpdateBlock st A2 B act upd
    match stateOutcome st2 with
    | some o => o
    | none =>
      joinSp ["x0", showVec (st.apply (mkS skind Sm) Pm.mulVec f), "Fpp", showCRS st2.Fpp,
              "x", showVec (st2.apply (mkS skind Sm) Pm.mulVec f)]

-- deflation --------------------------------------------------------------------------------------------------

def defl (nt : Nat) (A : CRS Rat) (Z : List (Vec Rat)) (pkind : Nat) (Pm : DenseM) (b x0 : Vec Rat) : String :=
  let n := A.nrows
  if !(squareWF A && nt ≥ 1 && Z.length ≥ 1 && Z.all (fun z => z.size == n) && b.size == n && x0.size == n &&
       pkind ≤ 1 && (pkind == 0 || (Pm.r == n && Pm.c == n))) then badInput else
  match Deflation.init A Z.toArray with
  | none => "zero_pivot"
  | some st =>
    let Pf : Vec Rat → Vec Rat := if pkind = 0 then vcopy else Pm.mulVec
    joinSp ["Einv", showVec st.Einv, "proj", showVec (Deflation.project nt st b x0),
            "apply", showVec (Deflation.apply nt st Pf b), "solve", showVec (Deflation.solvePreonly nt st Pf b x0)]

/-- the accepted pattern strings: `%d:d+` with positive stride, `<d+`, `>d+` -/
def patternOk (pat : String) : Bool :=
  let digits := fun (l : List Char) => !l.isEmpty && l.all Char.isDigit
  match pat.toList with
  | '%' :: a :: ':' :: rest => a.isDigit && digits rest && Schur.atoi (String.ofList rest) > 0
  | '<' :: rest => digits rest
  | '>' :: rest => digits rest
  | _ => false

def pmaskOp (n : Nat) (pat : String) : String :=
  if !patternOk pat then badInput else
  if n = 0 then "precondition" else
  match Schur.maskOfPattern pat n with
  | none => "precondition"
  | some m => showNatVec (m.map (fun b => if b then 1 else 0))

def handle (op : String) (args : List String) : Option String :=
  match op with
  | "comp_pmask" => withArgs (do let n ← pNat; let pat ← tok; pure (n, pat)) args fun (n, pat) => pmaskOp n pat
  | "comp_schur" => withArgs (do
        let nt ← pNat; let type ← pNat; let adj ← pNat; let ap ← pBool; let sd ← pBool
        let A ← pCRS; let pm ← pMask; let Um ← pDense; let Pm ← pDense; let f ← pVec
        pure (nt, type, adj, ap, sd, A, pm, Um, Pm, f)) args
      fun (nt, type, adj, ap, sd, A, pm, Um, Pm, f) => schur nt type adj ap sd A pm Um Pm f
  | "comp_schur_mv" => withArgs (do
        let nt ← pNat; let adj ← pNat; let ap ← pBool; let sd ← pBool
        let A ← pCRS; let pm ← pMask; let Um ← pDense; let k ← pNat
        if k = 0 || k > 64 then fail
        let calls ← pMany k (do let a ← pRat; let b ← pRat; let x ← pVec; let y ← pVec; pure (a, b, x, y))
        let f ← pVec; let xr ← pVec
        pure (nt, adj, ap, sd, A, pm, Um, calls, f, xr)) args
      fun (nt, adj, ap, sd, A, pm, Um, calls, f, xr) => schurMv nt adj ap sd A pm Um calls f xr
  | "comp_cpr" => withArgs (do
        let B ← pNat; let act ← pNat; let A ← pCRS; let sk ← pNat; let Sm ← pDense; let Pm ← pDense; let f ← pVec
        pure (B, act, A, sk, Sm, Pm, f)) args
      fun (B, act, A, sk, Sm, Pm, f) => cprScalar B act A sk Sm Pm f
  | "comp_cpr_upd" => withArgs (do
        let B ← pNat; let act ← pNat; let A ← pCRS; let sk ← pNat; let Sm ← pDense; let Pm ← pDense; let f ← pVec
        let upd ← pBool; let A2 ← pCRS
        pure (B, act, A, sk, Sm, Pm, f, upd, A2)) args
      fun (B, act, A, sk, Sm, Pm, f, upd, A2) => cprScalarUpd B act A sk Sm Pm f upd A2
  | "comp_cprb" => withArgs (do
        let B ← pNat; let act ← pNat
        if B = 0 || B > 4 then fail
        let A ← pBlkCRS B; let sk ← pNat; let Sm ← pDense; let Pm ← pDense; let f ← pVec
        pure (B, act, A, sk, Sm, Pm, f)) args
      fun (B, act, A, sk, Sm, Pm, f) => cprBlock B act A sk Sm Pm f
  | "comp_cprb_upd" => withArgs (do
        let B ← pNat; let act ← pNat
        if B = 0 || B > 4 then fail
        let A ← pBlkCRS B; let sk ← pNat; let Sm ← pDense; let Pm ← pDense; let f ← pVec
        let upd ← pBool; let A2 ← pBlkCRS B
        pure (B, act, A, sk, Sm, Pm, f, upd, A2)) args
      fun (B, act, A, sk, Sm, Pm, f, upd, A2) => cprBlockUpd B act A sk Sm Pm f upd A2
  | "comp_defl" => withArgs (do
        let nt ← pNat; let A ← pCRS; let nv ← pNat; let Z ← pMany nv pVec
        let pk ← pNat; let Pm ← pDense; let b ← pVec; let x0 ← pVec
        pure (nt, A, Z, pk, Pm, b, x0)) args
      fun (nt, A, Z, pk, Pm, b, x0) => defl nt A Z pk Pm b x0
  | _ => none

end Amgcl.Driver.Composite
