import Amgcl.Driver.Util
import Amgcl.Model.Rsqrt
import Amgcl.Model.SolverCG
import Amgcl.Model.SolverBiCGStab
import Amgcl.Model.SolverRichardson
import Amgcl.Model.SolverPreonly
/-!
Handlers for the Krylov solvers CG / BiCGStab / Richardson / preonly (C01, C05, C15).

    solve_cg         maxiter tol abstol ns                    A PREC f x0
    solve_bicgstab   side maxiter tol abstol check_after ns   A PREC f x0
    solve_richardson damping maxiter tol abstol ns            A PREC f x0
    solve_preonly                                             A PREC f x0
    hist_cg          maxiter tol abstol ns                    n k (A PREC f x0)^k
    hist_bicgstab    side maxiter tol abstol check_after ns   n k (A PREC f x0)^k
    hist_richardson  damping maxiter tol abstol ns            n k (A PREC f x0)^k

`side` = `left|right`, booleans `0|1`, `PREC` = `id` | `diag <vec>` | `mat <CRS>` (the linear map `r ↦ M·r`).
Result of a solve: `ok <iters> <residual> <x>` or `precondition <x>` (x = the caller's vector after the throw).
`hist_*` runs `k` calls on ONE solver object of size `n` (work vectors threaded, starting from a fresh object)
and prints the `k` results separated by `|`.
-/
namespace Amgcl.Driver.Solvers
open Amgcl Amgcl.Driver Amgcl.Solver

/-- `amgcl::detail::eps<Q>(1) = 2 * numeric_limits<Q>::epsilon() * 1 = 2^-51` (qtype.hpp) -/
def machEps : Rat := Rat.divInt 2 ((2 ^ 52 : Nat) : Int)

inductive Prec where
  | id
  | diag (d : Vec Rat)
  | mat (M : CRS Rat)

/-- preconditioner-as-function: `apply(rhs, x)` of the harness classes -/
def Prec.apply : Prec → Vec Rat → Vec Rat
  | .id, v => vcopy v                       -- preconditioner::dummy: backend::copy(rhs, x)
  | .diag d, v => vmul 1 d v 0 #[]          -- backend::vmul(1, d, rhs, 0, x)
  | .mat M, v => spmv 1 M v 0 #[]           -- backend::spmv(1, M, rhs, 0, x)

def Prec.okFor (n : Nat) : Prec → Bool
  | .id => true
  | .diag d => d.size == n
  | .mat M => M.wfb && M.nrows == n && M.ncols == n

def pPrec : P Prec := do
  let t ← tok
  match t with
  | "id" => pure .id
  | "diag" => do let d ← pVec; pure (.diag d)
  | "mat" => do let M ← pCRS; pure (.mat M)
  | _ => fail

def pBool : P Bool := do
  let t ← tok
  match t with
  | "0" => pure false
  | "1" => pure true
  | _ => fail

def pSide : P Side := do
  let t ← tok
  match t with
  | "left" => pure .left
  | "right" => pure .right
  | _ => fail

structure Call where
  A : CRS Rat
  prec : Prec
  f : Vec Rat
  x0 : Vec Rat

def pCall : P Call := do
  let A ← pCRS; let pr ← pPrec; let f ← pVec; let x0 ← pVec
  pure ⟨A, pr, f, x0⟩

def Call.ok (c : Call) : Bool :=
  c.A.wfb && c.A.nrows == c.A.ncols && c.f.size == c.A.nrows && c.x0.size == c.A.nrows && c.prec.okFor c.A.nrows

def pCommon : P (Solver.Params Rat) := do
  let maxiter ← pNat; let tol ← pRat; let abstol ← pRat; let ns ← pBool
  pure { maxiter := maxiter, tol := tol, abstol := abstol, nsSearch := ns }

def showObs (o : Except Err (Nat × Rat) × Vec Rat) : String :=
  match o.1 with
  | .ok (it, res) => joinSp ["ok", toString it, showRat res, showVec o.2]
  | .error e => joinSp [e.token, showVec o.2]

def ip : Vec Rat → Vec Rat → Rat := stdIp

def Call.toModel (c : Call) : Solver.Call Rat := ⟨c.A, c.prec.apply, c.f, c.x0⟩

/-- the model's step function on protocol calls, printed -/
def strStep {W} (step : W → Solver.Call Rat → Obs Rat × W) (w : W) (c : Call) : String × W :=
  let r := step w c.toModel
  (showObs r.1, r.2)

def cgStep (prm : CG.Params Rat) := strStep (CG.call prm ip rsqrt machEps)
def bicgstabStep (prm : BiCGStab.Params Rat) := strStep (BiCGStab.call prm ip rsqrt machEps)
def richardsonStep (prm : Richardson.Params Rat) := strStep (Richardson.call prm ip rsqrt machEps)

def pBiCGStabPrm : P (BiCGStab.Params Rat) := do
  let side ← pSide; let maxiter ← pNat; let tol ← pRat; let abstol ← pRat; let ca ← pBool; let ns ← pBool
  pure { maxiter := maxiter, tol := tol, abstol := abstol, nsSearch := ns, pside := side, checkAfter := ca }

def pRichardsonPrm : P (Richardson.Params Rat) := do
  let damping ← pRat
  let c ← pCommon
  pure { c with damping := damping }

def pHist {α} (pp : P α) : P (α × Nat × List Call) := do
  let prm ← pp; let n ← pNat; let k ← pNat
  let cs ← pMany k pCall
  pure (prm, n, cs)

def histOut {W} (step : W → Call → String × W) (w0 : W) (n : Nat) (cs : List Call) : String :=
  if cs.all (fun c => c.ok && c.A.nrows == n) then
    " | ".intercalate (history step w0 cs)
  else badInput

def handle (op : String) (args : List String) : Option String :=
  match op with
  | "solve_cg" => withArgs (do let p ← pCommon; let c ← pCall; pure (p, c)) args
      fun (p, c) => if c.ok then (cgStep p (CG.Work.fresh c.A.nrows) c).1 else badInput
  | "solve_bicgstab" => withArgs (do let p ← pBiCGStabPrm; let c ← pCall; pure (p, c)) args
      fun (p, c) => if c.ok then (bicgstabStep p (BiCGStab.Work.fresh c.A.nrows) c).1 else badInput
  | "solve_richardson" => withArgs (do let p ← pRichardsonPrm; let c ← pCall; pure (p, c)) args
      fun (p, c) => if c.ok then (richardsonStep p (Richardson.Work.fresh c.A.nrows) c).1 else badInput
  | "solve_preonly" => withArgs pCall args
      fun c => if c.ok then showObs (Preonly.run ip rsqrt machEps c.A c.prec.apply () c.f c.x0).obs else badInput
  | "hist_cg" => withArgs (pHist pCommon) args
      fun (p, n, cs) => histOut (cgStep p) (CG.Work.fresh n) n cs
  | "hist_bicgstab" => withArgs (pHist pBiCGStabPrm) args
      fun (p, n, cs) => histOut (bicgstabStep p) (BiCGStab.Work.fresh n) n cs
  | "hist_richardson" => withArgs (pHist pRichardsonPrm) args
      fun (p, n, cs) => histOut (richardsonStep p) (Richardson.Work.fresh n) n cs
  | _ => none

end Amgcl.Driver.Solvers
