import Amgcl.Driver.Util
import Amgcl.Model.IOMM
import Amgcl.Model.IOBinary
import Amgcl.Model.IOFloat
/-!
Handlers for the C19 file-I/O ops (harness `h_io.cpp`).  Files travel on the op line as lowercase hex (`-` = empty
file).  Every op carries a free label as its first argument (`valid`, `trunc`, `corrupt`, `directed`, …) which
only the harness' statistics use.

    io_mm_read_sparse L kind hex b e      →  ok n m <ptr> <col> <val> | error | oob
    io_mm_read_dense  L kind hex b e      →  ok n m <val> | error | oob
    io_mm_rt_sparse   L kind b e <CRS>    →  <hex written> <read result>
    io_mm_rt_dense    L kind b e n m <val>→  <hex written> <read result>
    io_bin_crs_size   L hex               →  ok n | error
    io_bin_read_crs   L T hex b e         →  ok n <ptr> <col> <val> | error | oob
    io_bin_read_dense L T hex b e         →  ok n m <val> | error
    io_bin_rt_crs     L T b e <CRS>       →  <hex written> <read result>
    io_bin_rt_dense   L T b e n m <val>   →  <hex written> <read result>
    io_libc_roundtrip L count seed        →  tested          (libc `%.20e`/`strtod` test of the harness; no model content)

kind ∈ real | complex | integer; real values are the exact rationals of binary64 numbers, complex values two of
them, integer values `int`s.  `T` is the instantiation of the binary reader: `1` = `double` values (one 8-byte word),
`2` = `std::complex<double>` (two 8-byte words), `f` = `float` (one 4-byte word), each with `Col = ptrdiff_t`; sparse
ops also take `i1`, `i2`, `if` = the same value types with `Col = int` (4-byte column indices).  Binary values are bit
patterns (one decimal number per word).
-/
namespace Amgcl.Driver.IO
open Amgcl Amgcl.Driver Amgcl.IO

/-- allocation limit of the harness' `operator new` (bytes) -/
def memLimit : Nat := 67108864

def hexNibble (c : Char) : Option Nat :=
  if '0' ≤ c ∧ c ≤ '9' then some (c.toNat - 48)
  else if 'a' ≤ c ∧ c ≤ 'f' then some (c.toNat - 87)
  else none

def parseHexAux : List Char → Option Bytes
  | [] => some []
  | [_] => none
  | a :: b :: t => do
    let x ← hexNibble a
    let y ← hexNibble b
    let r ← parseHexAux t
    pure ((16 * x + y) :: r)

def pHex : P Bytes := do
  let t ← tok
  if t = "-" then pure [] else
  match parseHexAux t.toList with
  | some b => pure b
  | none => fail

def hexDigit (n : Nat) : Char := if n < 10 then Char.ofNat (48 + n) else Char.ofNat (87 + n)
def showHex (b : Bytes) : String :=
  if b.isEmpty then "-" else String.ofList (b.flatMap (fun x => [hexDigit (x / 16 % 16), hexDigit (x % 16)]))

def showList {α} (f : α → String) (l : List α) : String := joinSp (toString l.length :: l.map f)

def showOutcome {α} (f : α → String) : Outcome α → String
  | .ok a => "ok " ++ f a
  | .error => "error"
  | .oob => "oob"

def showRaw {V} (f : V → String) (withCols : Bool) (A : RawCRS V) : String :=
  joinSp ([toString A.nrows] ++ (if withCols then [toString A.ncols] else []) ++
    [showList toString A.ptr, showList toString A.col, showList f A.val])

def showDense {V} (f : V → String) (D : RawDense V) : String :=
  joinSp [toString D.nrows, toString D.ncols, showList f D.val]

/-- the three MatrixMarket value kinds, with their line-protocol parser and printer -/
structure KindOps (V : Type) where
  vk : ValKind V
  p : P V
  sh : V → String

def realOps : KindOps Rat := ⟨realKind doubleCodec 0, pRat, showRat⟩
def complexOps : KindOps (Rat × Rat) :=
  ⟨complexKind doubleCodec 0, (do let x ← pRat; let y ← pRat; pure (x, y)), fun v => showRat v.1 ++ " " ++ showRat v.2⟩
def intOps : KindOps Int := ⟨intKind, pInt, toString⟩

def pDenseOf {V} (p : P V) : P (RawDense V) := do
  let n ← pNat
  let m ← pNat
  let k ← pNat
  let v ← pMany k p
  pure ⟨n, m, v⟩

def mmReadSparseOp {V} (k : KindOps V) (args : List String) : String :=
  match runP (do let f ← pHex; let b ← pInt; let e ← pInt; pure (f, b, e)) args with
  | some (f, b, e) => showOutcome (showRaw k.sh true) (mmReadSparse true memLimit k.vk f b e)
  | none => badInput

def mmReadDenseOp {V} (k : KindOps V) (args : List String) : String :=
  match runP (do let f ← pHex; let b ← pInt; let e ← pInt; pure (f, b, e)) args with
  | some (f, b, e) => showOutcome (showDense k.sh) (mmReadDense true memLimit k.vk f b e)
  | none => badInput

def mmRtSparseOp {V} (k : KindOps V) (args : List String) : String :=
  match runP (do let b ← pInt; let e ← pInt; let A ← pCRSOf k.p; pure (b, e, A)) args with
  | some (b, e, A) =>
    if !A.wfb then badInput else
    let f := mmWriteSparse k.vk A
    showHex f ++ " " ++ showOutcome (showRaw k.sh true) (mmReadSparse true memLimit k.vk f b e)
  | none => badInput

def mmRtDenseOp {V} (k : KindOps V) (args : List String) : String :=
  match runP (do let b ← pInt; let e ← pInt; let D ← pDenseOf k.p; pure (b, e, D)) args with
  | some (b, e, D) =>
    if D.val.length ≠ D.nrows * D.ncols then badInput else
    let f := mmWriteDense k.vk D
    showHex f ++ " " ++ showOutcome (showDense k.sh) (mmReadDense true memLimit k.vk f b e)
  | none => badInput

def withKind (kind : String) (args : List String)
    (f : {V : Type} → KindOps V → List String → String) : String :=
  match kind with
  | "real" => f realOps args
  | "complex" => f complexOps args
  | "integer" => f intOps args
  | _ => badInput

/-- an instantiation of the binary readers: size and codec of a stored column index, a value = `wn` little-endian
words of `ws` bytes -/
structure BinT where
  csz : Nat
  cdec : Bytes → Int
  cenc : Int → Bytes
  ws : Nat
  wn : Nat

def BinT.vsz (t : BinT) : Nat := t.ws * t.wn
/-- binary values: `wn` little-endian words of `ws` bytes -/
def BinT.dec (t : BinT) (bs : Bytes) : List Nat := (splitEvery t.ws t.wn bs).map leVal
def BinT.enc (t : BinT) (v : List Nat) : Bytes := v.flatMap (if t.ws = 4 then enc32 else enc64)
def showWords (v : List Nat) : String := joinSp (v.map toString)
def BinT.pWords (t : BinT) : P (List Nat) :=
  pMany t.wn (do let x ← pNat; if x < 256 ^ t.ws then pure x else fail)

def binVal (tok : String) : Option (Nat × Nat) :=
  match tok with
  | "1" => some (8, 1)
  | "2" => some (8, 2)
  | "f" => some (4, 1)
  | _ => none

/-- the type token of a sparse op (`i…` = `Col = int`) / of a dense op (no column type) -/
def binT (sparse : Bool) (tok : String) : Option BinT :=
  match tok.toList with
  | 'i' :: rest =>
    if sparse then (binVal (String.ofList rest)).map fun (ws, wn) => ⟨4, decS32, encS32, ws, wn⟩ else none
  | _ => (binVal tok).map fun (ws, wn) => ⟨8, decS64, encS64, ws, wn⟩

def handle (op : String) (args : List String) : Option String :=
  if !op.startsWith "io_" then none else
  match args with
  | [] => some badInput
  | _label :: args =>
  match op, args with
  | "io_mm_read_sparse", kind :: rest => some (withKind kind rest mmReadSparseOp)
  | "io_mm_read_dense", kind :: rest => some (withKind kind rest mmReadDenseOp)
  | "io_mm_rt_sparse", kind :: rest => some (withKind kind rest mmRtSparseOp)
  | "io_mm_rt_dense", kind :: rest => some (withKind kind rest mmRtDenseOp)
  | "io_bin_crs_size", rest => withArgs pHex rest fun f => showOutcome toString (binCrsSize f)
  | "io_bin_read_crs", ty :: rest =>
    match binT true ty with
    | some t =>
      withArgs (do let f ← pHex; let b ← pInt; let e ← pInt; pure (f, b, e)) rest
        fun (f, b, e) =>
          showOutcome (showRaw showWords false) (binReadCrs true memLimit t.csz t.cdec t.vsz t.dec f b e)
    | none => some badInput
  | "io_bin_read_dense", ty :: rest =>
    match binT false ty with
    | some t =>
      withArgs (do let f ← pHex; let b ← pInt; let e ← pInt; pure (f, b, e)) rest
        fun (f, b, e) =>
          showOutcome (showDense showWords) (binReadDense true memLimit t.vsz t.dec f b e)
    | none => some badInput
  | "io_bin_rt_crs", ty :: rest =>
    match binT true ty with
    | some t =>
      withArgs (do let b ← pInt; let e ← pInt; let A ← pCRSOf t.pWords; pure (b, e, A)) rest
        fun (b, e, A) =>
          if !A.wfb then badInput else
          let f := binWriteCrs t.cenc t.enc A
          showHex f ++ " " ++
            showOutcome (showRaw showWords false) (binReadCrs true memLimit t.csz t.cdec t.vsz t.dec f b e)
    | none => some badInput
  | "io_bin_rt_dense", ty :: rest =>
    match binT false ty with
    | some t =>
      withArgs (do let b ← pInt; let e ← pInt; let D ← pDenseOf t.pWords; pure (b, e, D)) rest
        fun (b, e, D) =>
          if D.val.length ≠ D.nrows * D.ncols then badInput else
          let f := binWriteDense t.enc D
          showHex f ++ " " ++ showOutcome (showDense showWords) (binReadDense true memLimit t.vsz t.dec f b e)
    | none => some badInput
  | "io_bin_read_crs", [] => some badInput
  | "io_bin_read_dense", [] => some badInput
  | "io_bin_rt_crs", [] => some badInput
  | "io_bin_rt_dense", [] => some badInput
  | "io_libc_roundtrip", rest =>
    withArgs (do let c ← pNat; let s ← pNat; pure (c, s)) rest fun _ => "tested"
  | _, _ => some "bad-op"

end Amgcl.Driver.IO
