import Amgcl.Driver.Util
import Amgcl.Model.IOMM
import Amgcl.Model.IOBinary
import Amgcl.Model.IOFloat
/-!
Handlers for the C19 file-I/O ops (harness `h_io.cpp`).  Files travel on the op line as lowercase hex (`-` = empty
file).  Every op carries a free label as its first argument (`valid`, `trunc`, `corrupt`, `directed`, …) which
only the harness' statistics use.

    io_mm_read_sparse L kind hex b e      →  ok n m <ptr> <col> <val> | error | oob
    io_mm_read_dense  L kind hex b e      →  ok n m <val> | error | oob
    io_mm_rt_sparse   L kind b e <CRS>    →  <hex written> <read result>
    io_mm_rt_dense    L kind b e n m <val>→  <hex written> <read result>
    io_bin_crs_size   L hex               →  ok n | error
    io_bin_read_crs   L w hex b e         →  ok n <ptr> <col> <val> | error | oob        (w = 8-byte words per value)
    io_bin_read_dense L w hex b e         →  ok n m <val> | error
    io_bin_rt_crs     L w b e <CRS>       →  <hex written> <read result>
    io_bin_rt_dense   L w b e n m <val>   →  <hex written> <read result>
    io_libc_roundtrip L count seed        →  tested          (libc `%.20e`/`strtod` test of the harness; no model content)

kind ∈ real | complex | integer; real values are the exact rationals of binary64 numbers, complex values two of
them, integer values `int`s; binary values are bit patterns (one decimal `u64` per 8-byte word).
-/
namespace Amgcl.Driver.IO
open Amgcl Amgcl.Driver Amgcl.IO

/-- allocation limit of the harness' `operator new` (bytes) -/
def memLimit : Nat := 67108864

def hexNibble (c : Char) : Option Nat :=
  if '0' ≤ c ∧ c ≤ '9' then some (c.toNat - 48)
  else if 'a' ≤ c ∧ c ≤ 'f' then some (c.toNat - 87)
  else none

def parseHexAux : List Char → Option Bytes
  | [] => some []
  | [_] => none
  | a :: b :: t => do
    let x ← hexNibble a
    let y ← hexNibble b
    let r ← parseHexAux t
    pure ((16 * x + y) :: r)

def pHex : P Bytes := do
  let t ← tok
  if t = "-" then pure [] else
  match parseHexAux t.toList with
  | some b => pure b
  | none => fail

def hexDigit (n : Nat) : Char := if n < 10 then Char.ofNat (48 + n) else Char.ofNat (87 + n)
def showHex (b : Bytes) : String :=
  if b.isEmpty then "-" else String.ofList (b.flatMap (fun x => [hexDigit (x / 16 % 16), hexDigit (x % 16)]))

def showList {α} (f : α → String) (l : List α) : String := joinSp (toString l.length :: l.map f)

def showOutcome {α} (f : α → String) : Outcome α → String
  | .ok a => "ok " ++ f a
  | .error => "error"
  | .oob => "oob"

def showRaw {V} (f : V → String) (withCols : Bool) (A : RawCRS V) : String :=
  joinSp ([toString A.nrows] ++ (if withCols then [toString A.ncols] else []) ++
    [showList toString A.ptr, showList toString A.col, showList f A.val])

def showDense {V} (f : V → String) (D : RawDense V) : String :=
  joinSp [toString D.nrows, toString D.ncols, showList f D.val]

/-- the three MatrixMarket value kinds, with their line-protocol parser and printer -/
structure KindOps (V : Type) where
  vk : ValKind V
  p : P V
  sh : V → String

def realOps : KindOps Rat := ⟨realKind doubleCodec 0, pRat, showRat⟩
def complexOps : KindOps (Rat × Rat) :=
  ⟨complexKind doubleCodec 0, (do let x ← pRat; let y ← pRat; pure (x, y)), fun v => showRat v.1 ++ " " ++ showRat v.2⟩
def intOps : KindOps Int := ⟨intKind, pInt, toString⟩

def pDenseOf {V} (p : P V) : P (RawDense V) := do
  let n ← pNat
  let m ← pNat
  let k ← pNat
  let v ← pMany k p
  pure ⟨n, m, v⟩

def mmReadSparseOp {V} (k : KindOps V) (args : List String) : String :=
  match runP (do let f ← pHex; let b ← pInt; let e ← pInt; pure (f, b, e)) args with
  | some (f, b, e) => showOutcome (showRaw k.sh true) (mmReadSparse true memLimit k.vk f b e)
  | none => badInput

def mmReadDenseOp {V} (k : KindOps V) (args : List String) : String :=
  match runP (do let f ← pHex; let b ← pInt; let e ← pInt; pure (f, b, e)) args with
  | some (f, b, e) => showOutcome (showDense k.sh) (mmReadDense true memLimit k.vk f b e)
  | none => badInput

def mmRtSparseOp {V} (k : KindOps V) (args : List String) : String :=
  match runP (do let b ← pInt; let e ← pInt; let A ← pCRSOf k.p; pure (b, e, A)) args with
  | some (b, e, A) =>
    if !A.wfb then badInput else
    let f := mmWriteSparse k.vk A
    showHex f ++ " " ++ showOutcome (showRaw k.sh true) (mmReadSparse true memLimit k.vk f b e)
  | none => badInput

def mmRtDenseOp {V} (k : KindOps V) (args : List String) : String :=
  match runP (do let b ← pInt; let e ← pInt; let D ← pDenseOf k.p; pure (b, e, D)) args with
  | some (b, e, D) =>
    if D.val.length ≠ D.nrows * D.ncols then badInput else
    let f := mmWriteDense k.vk D
    showHex f ++ " " ++ showOutcome (showDense k.sh) (mmReadDense true memLimit k.vk f b e)
  | none => badInput

def withKind (kind : String) (args : List String)
    (f : {V : Type} → KindOps V → List String → String) : String :=
  match kind with
  | "real" => f realOps args
  | "complex" => f complexOps args
  | "integer" => f intOps args
  | _ => badInput

/-- binary values: `w` little-endian 8-byte words -/
def binDec (w : Nat) (bs : Bytes) : List Nat := (splitEvery 8 w bs).map leVal
def binEnc (v : List Nat) : Bytes := v.flatMap enc64
def showWords (v : List Nat) : String := joinSp (v.map toString)
def pWords (w : Nat) : P (List Nat) := pMany w (do let x ← pNat; if x < two64 then pure x else fail)

def handle (op : String) (args : List String) : Option String :=
  if !op.startsWith "io_" then none else
  match args with
  | [] => some badInput
  | _label :: args =>
  match op, args with
  | "io_mm_read_sparse", kind :: rest => some (withKind kind rest mmReadSparseOp)
  | "io_mm_read_dense", kind :: rest => some (withKind kind rest mmReadDenseOp)
  | "io_mm_rt_sparse", kind :: rest => some (withKind kind rest mmRtSparseOp)
  | "io_mm_rt_dense", kind :: rest => some (withKind kind rest mmRtDenseOp)
  | "io_bin_crs_size", rest => withArgs pHex rest fun f => showOutcome toString (binCrsSize f)
  | "io_bin_read_crs", rest =>
    withArgs (do let w ← pNat; let f ← pHex; let b ← pInt; let e ← pInt; pure (w, f, b, e)) rest
      fun (w, f, b, e) =>
        if w ≠ 1 ∧ w ≠ 2 then badInput else
        showOutcome (showRaw showWords false) (binReadCrs true memLimit (8 * w) (binDec w) f b e)
  | "io_bin_read_dense", rest =>
    withArgs (do let w ← pNat; let f ← pHex; let b ← pInt; let e ← pInt; pure (w, f, b, e)) rest
      fun (w, f, b, e) =>
        if w ≠ 1 ∧ w ≠ 2 then badInput else
        showOutcome (showDense showWords) (binReadDense true memLimit (8 * w) (binDec w) f b e)
  | "io_bin_rt_crs", w :: rest =>
    match w.toNat? with
    | some w =>
      if w ≠ 1 ∧ w ≠ 2 then some badInput else
      withArgs (do let b ← pInt; let e ← pInt; let A ← pCRSOf (pWords w); pure (b, e, A)) rest
        fun (b, e, A) =>
          let f := binWriteCrs binEnc A
          showHex f ++ " " ++ showOutcome (showRaw showWords false) (binReadCrs true memLimit (8 * w) (binDec w) f b e)
    | none => some badInput
  | "io_bin_rt_dense", w :: rest =>
    match w.toNat? with
    | some w =>
      if w ≠ 1 ∧ w ≠ 2 then some badInput else
      withArgs (do let b ← pInt; let e ← pInt; let D ← pDenseOf (pWords w); pure (b, e, D)) rest
        fun (b, e, D) =>
          if D.val.length ≠ D.nrows * D.ncols then badInput else
          let f := binWriteDense binEnc D
          showHex f ++ " " ++ showOutcome (showDense showWords) (binReadDense true memLimit (8 * w) (binDec w) f b e)
    | none => some badInput
  | "io_libc_roundtrip", rest =>
    withArgs (do let c ← pNat; let s ← pNat; pure (c, s)) rest fun _ => "tested"
  | _, _ => some "bad-op"

end Amgcl.Driver.IO
