import Amgcl.Driver.Util
import Amgcl.Model.RelaxJacobi
import Amgcl.Model.RelaxIluk
import Amgcl.Model.RelaxIlut
/-!
Handlers for the model of `ilut.hpp` as written (C06, `Model/RelaxIlut.lean`).

    relax_ilut_factors p tau A               observable factors `L U D` (explicit zeros dropped; `singular` when a stored
                                             pivot is 0; `tie` when a fill limit cuts inside a group of equal magnitudes)
    relax_ilut_pre|post p tau ω A f x tmp    one sweep: `x' tmp'`
    relax_ilut_apply p tau A f               `x'`
    relax_ilut_drops p tau A                 number of discarded entries of the run (ghost record; the harness answers with
                                             the count of its own dense recurrence)

`A` must be square, well formed and store the diagonal in every row (rows may be unsorted and may repeat a column);
`p ≥ 0`, `tau ≥ 0`; anything else is `bad-input`.  `p` is the exact value of `prm.p`: at `Q` the fill limits are
`⌊len · p⌋`.
-/
namespace Amgcl.Driver.RelaxIlut
open Amgcl Amgcl.Driver Amgcl.Relax

def okMat (A : CRS Rat) : Bool := A.wfb && A.ncols == A.nrows && hasDiagb A

def rabs (x : Rat) : Rat := if x < 0 then -x else x

def prm (p tau : Rat) : IlutParams Rat :=
  { fill := fun len => ((len : Rat) * p).floor.toNat, tau := tau, ofNat := fun k => (k : Rat), norm := rabs }

def outcome {S : Type} (o : IlutOutcome S) (k : S → String) : String :=
  match o with
  | .ok s => k s
  | .tie => "tie"
  | .undefinedInput => badInput

def showFactors (F : IluFactors Rat) : String :=
  showCRS F.L ++ " " ++ showCRS F.U ++ " " ++ showVec F.D

def showObservable (F : IluFactors Rat) : String :=
  if F.D.any (· == 0) then "singular" else showFactors F.dropZeros

def handle (op : String) (args : List String) : Option String :=
  match op with
  | "relax_ilut_factors" =>
    withArgs (do let p ← pRat; let tau ← pRat; let A ← pCRS; pure (p, tau, A)) args fun (p, tau, A) =>
      if okMat A && decide (0 ≤ p) && decide (p ≤ 1000) && decide (0 ≤ tau) then outcome (ilutFactor (prm p tau) A) showObservable else badInput
  | "relax_ilut_drops" =>
    withArgs (do let p ← pRat; let tau ← pRat; let A ← pCRS; pure (p, tau, A)) args fun (p, tau, A) =>
      if okMat A && decide (0 ≤ p) && decide (p ≤ 1000) && decide (0 ≤ tau) then
        outcome (ilutFactorT (prm p tau) A) fun FR =>
          toString (FR.2.foldl (fun s d => s + d.skipped.length + d.cutL.length + d.dropU.length) 0)
      else badInput
  | "relax_ilut_pre" | "relax_ilut_post" =>
    withArgs (do let p ← pRat; let tau ← pRat; let w ← pRat; let A ← pCRS; let f ← pVec; let x ← pVec; let t ← pVec
                 pure (p, tau, w, A, f, x, t)) args
      fun (p, tau, w, A, f, x, t) =>
      if okMat A && decide (0 ≤ p) && decide (p ≤ 1000) && decide (0 ≤ tau) && f.size == A.nrows && x.size == A.nrows && t.size == A.nrows then
        let sm := ilut (prm p tau) w
        outcome (ilutFactor (prm p tau) A) fun s =>
          let r := if op == "relax_ilut_pre" then sm.applyPre s A f x t else sm.applyPost s A f x t
          showVec r.1 ++ " " ++ showVec r.2
      else badInput
  | "relax_ilut_apply" =>
    withArgs (do let p ← pRat; let tau ← pRat; let A ← pCRS; let f ← pVec; pure (p, tau, A, f)) args fun (p, tau, A, f) =>
      if okMat A && decide (0 ≤ p) && decide (p ≤ 1000) && decide (0 ≤ tau) && f.size == A.nrows then
        let sm := ilut (prm p tau) (1 : Rat)
        outcome (ilutFactor (prm p tau) A) fun s => showVec (sm.apply s A f)
      else badInput
  | _ => none

end Amgcl.Driver.RelaxIlut
