import Amgcl.Driver.Util
import Amgcl.Driver.Primitives2
import Amgcl.Driver.Primitives3
import Amgcl.Driver.DirectC
import Amgcl.Model.Kernels
import Amgcl.Model.KernelsCopy
import Amgcl.Model.KernelsValue
import Amgcl.Model.Primitives
import Amgcl.Model.Rsqrt
/-!
C08 kernels at STRUCTURED value types (harness/h_kernels_blk.cpp): `static_matrix<Q,b,b>` (`SMat Rat b b`, b = 2, 3) and
`std::complex<Q>` (`CRat`).  The models are the generic ones of `Model/Kernels.lean` (one carrier: `product`, `sum`,
`sortRows`, `diagonal`, `crsCopy`, `scale` at complex values) executed at these carriers, and the two-type versions of
`Model/KernelsValue.lean` (`gershgorinV`, `scaleV`, `pointwiseMatrixV`).

```
kb_gersh_blk b sc A            kb_gersh_cx sc A              spectral_radius<sc>(A, 0)  -> rational
kb_eig_blk   b sc A x lam      kb_eig_cx   sc A x lam        the same estimate; (x, lam) must be an eigenpair of A (sc = 0) resp. of
                                                              D^-1 A, i.e. A x = lam D x (sc = 1), every row storing exactly one
                                                              diagonal entry; otherwise bad-input
kb_diag_blk  b inv A           kb_diag_cx  inv A             diagonal(A, inv)           -> vector of values
kb_scale_blk b A s             kb_scale_cx rs A s            scale(A, s): s a scalar (rs = 1: of type Q, needs im s = 0)
kb_sum_blk   b al A be B sort  kb_sum_cx   al A be B sort    sum(alpha, A, beta, B, sort): the weights have the VALUE type
kb_sort_blk  b A               kb_sort_cx  A                 sort_rows(A)
kb_pw_blk    b bs A            kb_pw_cx    bs A              pointwise_matrix(A, bs)    -> CRS of rationals | precondition
kb_copy_blk  b kind A          kb_copy_cx  kind A            CRS range / copy / convert constructors
kb_product_blk b nt A B sort   kb_product_cx nt A B sort     product(A, B, sort) with nt threads
```
A block is `b*b` rationals row-major, a complex number two rationals `re im`; vectors of the block ops travel flat.
-/
namespace Amgcl.Driver.KernelsBlk
open Amgcl Amgcl.Driver Amgcl.Driver.Primitives2 Amgcl.Driver.Primitives3 Amgcl.Driver.DirectC

instance : DecidableEq CRat := fun a b =>
  if h : a.re = b.re ∧ a.im = b.im then isTrue (by cases a; cases b; simp_all) else isFalse (by intro e; subst e; simp at h)

/-- `math::inverse` of a complex scalar: `identity / x` (value_type/interface.hpp:146-150) -/
instance : Inv CRat := ⟨fun z => (1 : CRat) / z⟩

/-- `math::norm` of a block: Frobenius norm with the harness' `sqrt` (static_matrix.hpp:266-276) -/
def blkNorm {b : Nat} (v : SMat Rat b b) : Rat := SMat.norm rsqrt absRat id v

/-- everything the ops need to know about a value type -/
structure VT (V : Type) where
  p : P V
  sh : V → String
  norm : V → Rat
  /-- may `math::inverse` be applied?  `detail::inverse` asserts a non-zero pivot, so a block must be invertible (decided
  through the modelled inverse: no `W` satisfies `v * W = 1` for a singular `v`); a scalar is divided totally -/
  invertible : V → Bool
  /-- exactly representable in binary32 (value-type conversion op): numerator below `2^20`, denominator in `{1,2,4,8}` -/
  fexact : V → Bool

def ratFexact (q : Rat) : Bool := q.num.natAbs ≤ 2 ^ 20 && (q.den == 1 || q.den == 2 || q.den == 4 || q.den == 8)

def blkVT (b : Nat) : VT (SMat Rat b b) :=
  ⟨pSMat b b pRat, showSMat showRat, blkNorm, fun v => v * v⁻¹ == (1 : SMat Rat b b), fun v => v.buf.toList.all ratFexact⟩
def cxVT : VT CRat := ⟨pC, showC, cabs, fun _ => true, fun z => ratFexact z.re && ratFexact z.im⟩

/-- every value stored on a diagonal position may be inverted -/
def diagInvertible {V : Type} (vt : VT V) (A : CRS V) : Bool :=
  (List.range A.nrows).all fun i => (A.row i).all fun cv => cv.1 != i || vt.invertible cv.2

def showPtr {V : Type} (sh : V → String) (ws : List Nat) (C : CRS V) : String :=
  showNatVec (scanWidths ws).toArray ++ " " ++ showCRSOf sh C

section generic
variable {V : Type} (vt : VT V)

def opGersh [Inv V] [One V] (sc : Bool) (A : CRS V) : String :=
  if A.wfb && A.nrows == A.ncols && (!sc || diagInvertible vt A) then showRat (gershgorinV vt.norm (fun v => v⁻¹) 1 sc A) else badInput

def opDiag [Zero V] [One V] [Inv V] [DecidableEq V] (args : List String) : Option String :=
  withArgs (do let inv ← pFlag; let A ← pCRSOf vt.p; pure (inv, A)) args
    fun (inv, A) =>
      -- the value that gets inverted: the first stored diagonal entry of a row, unless it is zero
      let okInv := !inv || (List.range A.nrows).all fun i =>
        match (A.row i).find? (fun cv => cv.1 = i) with
        | none => true
        | some cv => cv.2 = 0 || vt.invertible cv.2
      if A.wfb && okInv then
      showVecOf (fun o => match o with | none => "U" | some v => vt.sh v) (diagonal A inv) else badInput

def opSum [Add V] [Mul V] [Zero V] (args : List String) : Option String :=
  withArgs (do let a ← vt.p; let A ← pCRSOf vt.p; let b ← vt.p; let B ← pCRSOf vt.p; let s ← pFlag; pure (a, A, b, B, s)) args
    fun (a, A, b, B, s) =>
      if !(A.wfb && B.wfb) then badInput
      else if A.ncols == B.ncols && A.nrows == B.nrows then showPtr vt.sh (sumWidths A B) (sum a A b B s) else "precondition"

def opSort (args : List String) : Option String :=
  withArgs (pCRSOf vt.p) args fun A => if A.wfb then showCRSOf vt.sh (sortRows A) else badInput

def opPw (args : List String) : Option String :=
  withArgs (do let bs ← pNat; let A ← pCRSOf vt.p; pure (bs, A)) args
    fun (bs, A) => if A.wfb && bs ≥ 1 then
      (match pointwiseMatrixV vt.norm A bs with
       | .ok C => showCRS C
       | .emptyLevel => "empty_level"
       | .precondition => "precondition") else badInput

/-- kinds 0-3 as `k_crs_copy`; 4: `crs<V(double)>(crs<V(float)>)` on binary32 data; 5 (blocks):
`crs<V>(adapter::block_matrix<V>(*adapter::unblock_matrix(A)))` for a row-sorted `A` — all of them copy the rows one by one -/
def opCopy (maxKind : Nat) (args : List String) : Option String :=
  withArgs (do let kind ← pNat; let A ← pCRSOf vt.p; pure (kind, A)) args
    fun (kind, A) =>
      if A.wfb && kind ≤ maxKind && (kind != 3 || A.nrows == A.ncols) &&
         (kind != 4 || A.rows.toList.all (fun r => r.all (fun cv => vt.fexact cv.2))) && (kind != 5 || A.sortedb) then
        showPtr vt.sh ((crsCopy A).rows.toList.map List.length) (crsCopy A) else badInput

def opProduct [Add V] [Mul V] [Zero V] [One V] (args : List String) : Option String :=
  withArgs (do let nt ← pNat; let A ← pCRSOf vt.p; let B ← pCRSOf vt.p; let s ← pFlag; pure (nt, A, B, s)) args
    fun (nt, A, B, s) =>
      if A.wfb && B.wfb && A.ncols == B.nrows && nt ≥ 1 && (nt ≤ 16 || B.sortedb) then showCRSOf vt.sh (product nt A B s)
      else badInput

end generic

/-- the entries of `A` on the diagonal positions only -/
def diagPart {V : Type} (A : CRS V) : CRS V :=
  { ncols := A.ncols, rows := Array.ofFn (n := A.nrows) fun i => (A.row i.val).filter (fun cv => cv.1 == i.val) }

def oneDiagPerRow {V : Type} (A : CRS V) : Bool :=
  (List.range A.nrows).all fun i => ((A.row i).filter (fun cv => cv.1 == i)).length == 1

/-- `(x, lam)` is an eigenpair: `E x = lam * (Ed x)` (scaled, `Ed` the diagonal part) resp. `E x = lam * x`, `x ≠ 0`;
`E` is the scalar matrix the operand stands for -/
def isEigenpair {K : Type} [Add K] [Mul K] [Zero K] [DecidableEq K] (sc : Bool) (E Ed : CRS K) (x : Vec K) (lam : K) : Bool :=
  let y := Array.ofFn (n := E.nrows) fun i => rowDot (E.row i.val) x
  let z := if sc then Array.ofFn (n := E.nrows) fun i => rowDot (Ed.row i.val) x else x
  x.size == E.ncols && E.nrows == E.ncols && x.any (fun v => v != 0) &&
    (List.range E.nrows).all fun i => y.getD i 0 == lam * z.getD i 0

def handleBlk (op : String) (b : Nat) (args : List String) : String :=
  let vt := blkVT b
  let r : Option String :=
    match op with
    | "kb_gersh_blk" => withArgs (do let sc ← pFlag; let A ← pCRSOf vt.p; pure (sc, A)) args fun (sc, A) => opGersh vt sc A
    | "kb_eig_blk" => withArgs (do let sc ← pFlag; let A ← pCRSOf vt.p; let x ← pVec; let lam ← pRat; pure (sc, A, x, lam)) args
        fun (sc, A, x, lam) =>
          if A.wfb && A.nrows == A.ncols && oneDiagPerRow A &&
             isEigenpair sc (expandBlocks A) (expandBlocks (diagPart A)) x lam then opGersh vt sc A else badInput
    | "kb_diag_blk" => opDiag vt args
    | "kb_scale_blk" => withArgs (do let A ← pCRSOf vt.p; let s ← pRat; pure (A, s)) args
        fun (A, s) => if A.wfb then showCRSOf vt.sh (scaleV (fun v (c : Rat) => SMat.smul c v) A s) else badInput
    | "kb_sum_blk" => opSum vt args
    | "kb_sort_blk" => opSort vt args
    | "kb_pw_blk" => opPw vt args
    | "kb_copy_blk" => opCopy vt 5 args
    | "kb_product_blk" => opProduct vt args
    | _ => none
  r.getD badInput

def isBlkOp (op : String) : Bool :=
  ["kb_gersh_blk", "kb_eig_blk", "kb_diag_blk", "kb_scale_blk", "kb_sum_blk", "kb_sort_blk", "kb_pw_blk", "kb_copy_blk",
   "kb_product_blk"].contains op

def handle (op : String) (args : List String) : Option String :=
  if isBlkOp op then withB args (handleBlk op) else
  let vt := cxVT
  match op with
  | "kb_gersh_cx" => withArgs (do let sc ← pFlag; let A ← pCRSOf vt.p; pure (sc, A)) args fun (sc, A) => opGersh vt sc A
  | "kb_eig_cx" => withArgs (do let sc ← pFlag; let A ← pCRSOf vt.p; let x ← pVecOf pC; let lam ← pC; pure (sc, A, x, lam)) args
      fun (sc, A, x, lam) =>
        if A.wfb && A.nrows == A.ncols && oneDiagPerRow A && isEigenpair sc A (diagPart A) x lam then opGersh vt sc A else badInput
  | "kb_diag_cx" => opDiag vt args
  | "kb_scale_cx" => withArgs (do let rs ← pFlag; let A ← pCRSOf vt.p; let s ← pC; pure (rs, A, s)) args
      fun (rs, A, s) => if !A.wfb || (rs && s.im != 0) then badInput else showCRSOf vt.sh (scale A s)
  | "kb_sum_cx" => opSum vt args
  | "kb_sort_cx" => opSort vt args
  | "kb_pw_cx" => opPw vt args
  | "kb_copy_cx" => opCopy vt 4 args
  | "kb_product_cx" => opProduct vt args
  | _ => none

end Amgcl.Driver.KernelsBlk
