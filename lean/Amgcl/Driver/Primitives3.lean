import Amgcl.Driver.Util
import Amgcl.Driver.Primitives2
import Amgcl.Model.Primitives
import Amgcl.Model.Kernels
import Amgcl.Model.BlockValue
/-!
C07 / C08, value types with a non-trivial structure (harness/h_primitives3.cpp):
* `mx_*`  block-valued CRS matrix (`crs<static_matrix<Q,b,b>>`) with scalar and/or block vectors in every combination
          (mixed specialisations of backend/detail/matrix_ops.hpp, builtin.hpp vmul), and the converse scalar matrix with
          block vectors; all vectors travel flat, the combination flags only select the C++ instantiation
* `vt_transpose_*`  `backend::transpose` at complex (`adjoint = conj`) and block (`adjoint = transpose of the block`) values
* `vt_galerkin_*`   `R = transpose(P)`, `galerkin(A, P, R)` at complex / block values
A block CRS matrix is written `nb mb` then per block row `k (c v_00 v_01 … v_{b-1,b-1})*` (row-major blocks).
-/
namespace Amgcl.Driver.Primitives3
open Amgcl Amgcl.Driver Amgcl.Driver.Primitives2

instance : Neg PRat := ⟨fun a => do pure (- (← a))⟩

def pSMat {K : Type} (n m : Nat) (p : P K) : P (SMat K n m) := do
  let l ← pMany (n * m) p
  pure ⟨l.toArray⟩

def showSMat {K : Type} {n m : Nat} (f : K → String) (x : SMat K n m) : String := joinSp (x.buf.toList.map f)

def pFlag : P Bool := do
  let n ← pNat
  if n = 0 then pure false else if n = 1 then pure true else fail

def okB (b : Nat) : Bool := b == 2 || b == 3

/-- exact in binary64 and small (the Eigen-block variant runs in double) -/
def exactSmall (q : Rat) : Bool := q.den == 1 && q.num.natAbs ≤ 2 ^ 40

/-- `mk = 2`: the block matrix is `builtin_hybrid<block>::copy_matrix(A)` = `crs<block>(adapter::block_matrix<block>(A))`
(builtin_hybrid.hpp:52-56); it stands for the scalar matrix `A` it was built from, which must have sorted rows and
sizes divisible by the block size (adapter/block_matrix.hpp:49-55) -/
def hybridOk {α : Type} (b mk : Nat) (A : CRS α) : Bool :=
  mk != 2 || (A.sortedb && A.nrows % b == 0 && A.ncols % b == 0)

def mxSpmv (b : Nat) (args : List String) : String :=
  match runP (do
      let mk ← pNat; let cx ← pFlag; let cy ← pFlag; let a ← pPRat
      if mk > 2 then fail
      else if mk ≥ 1 then
        let A ← pPCRS; let x ← pPVec; let β ← pPRat; let y ← pPVec
        pure (if A.wfb && x.size == A.ncols && y.size == A.nrows && (!cx || A.ncols % b == 0) && (!cy || A.nrows % b == 0) && hybridOk b mk A
          then showPVec (spmv a A x β y) else badInput)
      else
        let A ← pCRSOf (pSMat b b pPRat); let x ← pPVec; let β ← pPRat; let y ← pPVec
        pure (if A.wfb && x.size == A.ncols * b && y.size == A.nrows * b then showPVec (mixedSpmv a A x β y) else badInput)) args with
  | some s => s
  | none => badInput

def mxResidual (b : Nat) (args : List String) : String :=
  match runP (do
      let mk ← pNat; let cf ← pFlag; let cx ← pFlag; let cr ← pFlag
      if mk > 2 then fail
      else if mk ≥ 1 then
        let f ← pPVec; let A ← pPCRS; let x ← pPVec
        pure (if A.wfb && x.size == A.ncols && f.size == A.nrows && (!cx || A.ncols % b == 0) && (!(cf || cr) || A.nrows % b == 0) && hybridOk b mk A
          then showPVec (residual f A x) else badInput)
      else
        let f ← pPVec; let A ← pCRSOf (pSMat b b pPRat); let x ← pPVec
        pure (if A.wfb && x.size == A.ncols * b && f.size == A.nrows * b then showPVec (mixedResidual f A x) else badInput)) args with
  | some s => s
  | none => badInput

def mxVmul (b : Nat) (args : List String) : String :=
  match runP (do
      let _cy ← pFlag; let _cz ← pFlag; let a ← pPRat
      let X ← pVecOf (pSMat b b pPRat); let y ← pPVec; let β ← pPRat; let z ← pPVec
      pure (if y.size == X.size * b && z.size == X.size * b then showPVec (mixedVmul a X y β z) else badInput)) args with
  | some s => s
  | none => badInput

def transposeBlk (b : Nat) (args : List String) : String :=
  match runP (do
      let vt ← pFlag; let A ← pCRSOf (pSMat b b pRat)
      pure (if A.wfb && (!vt || A.rows.toList.all (fun r => r.all (fun cv => cv.2.buf.toList.all exactSmall)))
        then showCRSOf (showSMat showRat) (transpose (SMat.adjoint id) A) else badInput)) args with
  | some s => s
  | none => badInput

def galerkinOut {K : Type} (f : K → String) (RA : CRS K × CRS K) : String :=
  showCRSOf f RA.1 ++ " " ++ showCRSOf f RA.2

def galerkinOk {K : Type} (nt : Nat) (A P : CRS K) : Bool :=
  A.wfb && P.wfb && A.nrows == A.ncols && P.nrows == A.nrows && nt ≥ 1 && (nt ≤ 16 || P.sortedb)

def galerkinBlk (b : Nat) (args : List String) : String :=
  match runP (do
      let nt ← pNat; let A ← pCRSOf (pSMat b b pRat); let Pm ← pCRSOf (pSMat b b pRat)
      pure (if galerkinOk nt A Pm then galerkinOut (showSMat showRat) (galerkinRAP (SMat.adjoint id) nt A Pm) else badInput)) args with
  | some s => s
  | none => badInput

def withB (args : List String) (k : Nat → List String → String) : Option String :=
  match args with
  | t :: rest => match t.toNat? with
    | some b => if okB b then some (k b rest) else some badInput
    | none => some badInput
  | [] => some badInput

def handle (op : String) (args : List String) : Option String :=
  match op with
  | "mx_spmv" => withB args mxSpmv
  | "mx_residual" => withB args mxResidual
  | "mx_vmul" => withB args mxVmul
  | "vt_transpose_blk" => withB args transposeBlk
  | "vt_galerkin_blk" => withB args galerkinBlk
  | "vt_transpose_cx" => withArgs pCCRS args fun A => if A.wfb then showCRSOf showC (transpose cconj A) else badInput
  | "vt_galerkin_cx" => withArgs (do let nt ← pNat; let A ← pCCRS; let Pm ← pCCRS; pure (nt, A, Pm)) args
      fun (nt, A, Pm) => if galerkinOk nt A Pm then galerkinOut showC (galerkinRAP cconj nt A Pm) else badInput
  | _ => none

end Amgcl.Driver.Primitives3
