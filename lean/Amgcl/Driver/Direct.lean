import Amgcl.Driver.Util
import Amgcl.Model.SkylineLU
import Amgcl.Model.Inverse
import Amgcl.Model.StaticMatrix
import Amgcl.Model.DenseCheck
import Amgcl.Model.Rsqrt
import Amgcl.Model.QR
/-!
Handlers for the C16 family (harness/h_direct.cpp):

* `direct_sky_solve  kind A perm b y0 x0`   scalar skyline LU: constructor (with the ordering `perm` as input) + `operator()`
* `direct_skyb_solve kind A perm b y0 x0`   the same with `static_matrix<Q,2,2>` values / `static_matrix<Q,2,1>` right-hand sides
* `direct_inv_dense n A t p`                `detail::inverse` on its three buffers
* `direct_sm_lin N M c a b` · `direct_sm_mul N P M a b` · `direct_sm_assoc N P M L a b c` · `direct_sm_distrib N P M a b c` ·
  `direct_sm_inner N M x y` · `direct_sm_inverse N a`      static_matrix arithmetic
* `direct_cmk_check rev A perm`             V-grade: `isPermB` on the output of `cuthill_mckee<rev>::get`
* `direct_qr_check arith order m n A Qk R`      V-grade: exact / tolerance QR predicates on the output of `QR::factorize`
* `direct_qr_model order m n A` · `direct_qr_solve_model order m n A b`   faithful QR model (real scalars, `rsqrt`): exact
  correspondence of the factorised buffer, `Q(i,j)` and the solution of `QR::solve`
* `direct_qr_seq ns (kind order m n A [b])*`   ONE QR object reused for `ns` calls (`kind` 0 `factorize`: buffer and `Q(i,j)`,
  `kind` 1 `solve`: `x`) with the members `tau`/`f`/`q` threaded through the calls (`QRModel.runSeq`)
* `direct_qr_solve_check arith order m n A b x`  V-grade: normal equations (tall) / residual (wide) of `QR::solve`
-/
namespace Amgcl.Driver.Direct
open Amgcl Amgcl.Driver

abbrev B22 := SMat Rat 2 2
abbrev B21 := SMat Rat 2 1

def pSMat (N M : Nat) : P (SMat Rat N M) := do
  let l ← pMany (N * M) pRat
  pure ⟨l.toArray⟩

/-- vector of `N×M` blocks: count, then the flattened entries -/
def pSVec (N M : Nat) : P (Array (SMat Rat N M)) := pVecOf (pSMat N M)

def showSMat {N M : Nat} (a : SMat Rat N M) : String := joinSp (a.buf.toList.map showRat)
def showSVec {N M : Nat} (v : Array (SMat Rat N M)) : String :=
  joinSp (toString v.size :: v.toList.map showSMat)

def absRat (x : Rat) : Rat := if x < 0 then -x else x

/-- no column index occurs twice in a row, square, non-empty, indices in range -/
def matOk {V : Type} (A : CRS V) : Bool := A.nrows ≥ 1 && A.ncols == A.nrows && A.wfb && A.nodupb

section sky
variable {V R : Type} [Zero V] [Zero R] [Mul V] [Sub V] [Sub R] [HMul V R R]

def skyRun (isZero : V → Bool) (inv : V → V) (showV : Array V → String) (showR : Array R → String)
    (kind : Nat) (A : CRS V) (perm : Array Nat) (b y0 x0 : Array R) : String :=
  let n := A.nrows
  if !(kind ≤ 1 && matOk A && isPermB n perm && b.size == n && y0.size == n && x0.size == n) then badInput else
  match Skyline.constructAndSolve isZero inv A perm (some y0) b x0 with
  | .precondition => "precondition"
  | .ok (S, x) =>
    joinSp ["ok", showNatVec S.ptr, showV S.L, showV S.U, showV S.D, showR x, showR S.y]

end sky

/-- `tol = 2^-28` -/
def tol : Rat := Rat.divInt 1 (2 ^ 28 : Nat)

def pDense (m n : Nat) : P (Dense Rat) := do
  let l ← pMany (m * n) pRat
  pure ⟨m, n, l.toArray⟩

/-- row-major `m×n` data stored into a flat buffer with the strides of the requested storage order -/
def qrBuf (o m n : Nat) (A : Dense Rat) : Nat × Nat × Array Rat :=
  let rs := if o == 0 then n else 1
  let cs := if o == 0 then 1 else m
  (rs, cs, (List.range m).foldl (fun b i => (List.range n).foldl (fun b j =>
    b.setIfInBounds (i * rs + j * cs) (A.get i j)) b) (Array.replicate (m * n) 0))

/-- one step of `direct_qr_seq`: `kind order m n A [b]`; the shape is kept for printing -/
def pQRStep : P (Nat × Nat × Nat × Nat × QRModel.Call Rat) := do
  let kind ← pNat; let o ← pNat; let m ← pNat; let n ← pNat
  if !(kind ≤ 1 && o ≤ 1 && 1 ≤ m && 1 ≤ n && m ≤ 64 && n ≤ 64) then (fail : P Unit)
  let A ← pDense m n
  let (rs, cs, buf) := qrBuf o m n A
  if kind == 0 then pure (m, n, rs, cs, .factorize m n rs cs buf)
  else do
    let b ← pMany m pRat
    pure (m, n, rs, cs, .solve m n rs cs buf b.toArray)

def handle (op : String) (args : List String) : Option String :=
  match op with
  | "direct_sky_solve" =>
    withArgs (do let kind ← pNat; let A ← pCRS; let perm ← pNatVec; let b ← pVec; let y0 ← pVec; let x0 ← pVec
                 pure (kind, A, perm, b, y0, x0)) args
      fun (kind, A, perm, b, y0, x0) =>
        skyRun (V := Rat) (R := Rat) (fun v => v == 0) (fun v => 1 / v) showVec showVec kind A perm b y0 x0
  | "direct_skyb_solve" =>
    withArgs (do let kind ← pNat; let A ← pCRSOf (pSMat 2 2); let perm ← pNatVec; let b ← pSVec 2 1
                 let y0 ← pSVec 2 1; let x0 ← pSVec 2 1; pure (kind, A, perm, b, y0, x0)) args
      fun (kind, A, perm, b, y0, x0) =>
        let _ : Mul B22 := ⟨SMat.mul⟩
        skyRun (V := B22) (R := B21) SMat.isZero SMat.inverse showSVec showSVec kind A perm b y0 x0
  | "direct_inv_dense" =>
    withArgs (do let n ← pNat; let A ← pVec; let t ← pVec; let p ← pNatVec; pure (n, A, t, p)) args
      fun (n, A, t, p) =>
        if !(n ≥ 1 && A.size == n * n && t.size == n * n && p.size == n) then badInput else
        let (F, q) := luPhase n A p
        if (List.range n).any (fun i => get2 n F (q.getD i 0) i == 0) then "singular" else
        let (A', t', p') := inverse n A t p
        joinSp [showVec A', showVec t', showNatVec p']
  | "direct_sm_lin" =>
    match args with
    | sN :: sM :: rest =>
      match sN.toNat?, sM.toNat? with
      | some N, some M =>
        if !(1 ≤ N && N ≤ 4 && 1 ≤ M && M ≤ 4) then some badInput else
        withArgs (do let c ← pRat; let a ← pSMat N M; let b ← pSMat N M; pure (c, a, b)) rest
          fun (c, a, b) => joinSp [showSMat (a + b), showSMat (a - b), showSMat (SMat.smul c a), showSMat (-a),
                                   showSMat (SMat.adjoint id a), showBool (SMat.isZero a),
                                   showRat (rsqrt (absRat (SMat.normSq id a)))]
      | _, _ => some badInput
    | _ => some badInput
  | "direct_sm_mul" =>
    match args with
    | sN :: sP :: sM :: rest =>
      match sN.toNat?, sP.toNat?, sM.toNat? with
      | some N, some Pd, some M =>
        if !(1 ≤ N && N ≤ 4 && 1 ≤ Pd && Pd ≤ 4 && 1 ≤ M && M ≤ 4) then some badInput else
        withArgs (do let a ← pSMat N Pd; let b ← pSMat Pd M; pure (a, b)) rest
          fun (a, b) => joinSp [showSMat (a * b), showSMat (SMat.adjoint id (a * b))]
      | _, _, _ => some badInput
    | _ => some badInput
  | "direct_sm_assoc" =>
    match args with
    | sN :: sP :: sM :: sL :: rest =>
      match sN.toNat?, sP.toNat?, sM.toNat?, sL.toNat? with
      | some N, some Pd, some M, some Ld =>
        -- the harness instantiates all shapes with dimensions ≤ 3 and the square shape 4
        if !((1 ≤ N && N ≤ 3 && 1 ≤ Pd && Pd ≤ 3 && 1 ≤ M && M ≤ 3 && 1 ≤ Ld && Ld ≤ 3) || (N == 4 && Pd == 4 && M == 4 && Ld == 4)) then some badInput else
        withArgs (do let a ← pSMat N Pd; let b ← pSMat Pd M; let c ← pSMat M Ld; pure (a, b, c)) rest
          fun (a, b, c) => joinSp [showSMat ((a * b) * c), showSMat (a * (b * c))]
      | _, _, _, _ => some badInput
    | _ => some badInput
  | "direct_sm_distrib" =>
    match args with
    | sN :: sP :: sM :: rest =>
      match sN.toNat?, sP.toNat?, sM.toNat? with
      | some N, some Pd, some M =>
        if !(1 ≤ N && N ≤ 4 && 1 ≤ Pd && Pd ≤ 4 && 1 ≤ M && M ≤ 4) then some badInput else
        withArgs (do let a ← pSMat N Pd; let b ← pSMat Pd M; let c ← pSMat Pd M; pure (a, b, c)) rest
          fun (a, b, c) => joinSp [showSMat (a * (b + c)), showSMat (a * b + a * c), showSMat (a * (b - c))]
      | _, _, _ => some badInput
    | _ => some badInput
  | "direct_sm_inner" =>
    match args with
    | sN :: sM :: rest =>
      match sN.toNat?, sM.toNat? with
      | some N, some M =>
        if !(1 ≤ N && N ≤ 4 && 1 ≤ M && M ≤ 4) then some badInput else
        if M = 1 then
          withArgs (do let x ← pSMat N 1; let y ← pSMat N 1; pure (x, y)) rest
            fun (x, y) => showRat (SMat.innerVec id x y)
        else
          withArgs (do let x ← pSMat N M; let y ← pSMat N M; pure (x, y)) rest
            fun (x, y) => showSMat (SMat.innerMat id x y)
      | _, _ => some badInput
    | _ => some badInput
  | "direct_sm_inverse" =>
    match args with
    | sN :: rest =>
      match sN.toNat? with
      | some N =>
        if !(1 ≤ N && N ≤ 4) then some badInput else
        withArgs (pSMat N N) rest fun a =>
          let (F, q) := luPhase N a.buf (Array.replicate N 0)
          if (List.range N).any (fun i => get2 N F (q.getD i 0) i == 0) then "singular" else
          showSMat (SMat.inverse a)
      | _ => some badInput
    | _ => some badInput
  | "direct_cmk_check" =>
    withArgs (do let rev ← pNat; let A ← pCRS; let perm ← pNatVec; pure (rev, A, perm)) args
      fun (rev, A, perm) =>
        if !(rev ≤ 1 && A.nrows ≥ 1 && A.ncols == A.nrows && A.wfb) then badInput else
        showBool (isPermB A.nrows perm)
  | "direct_qr_check" =>
    match args with
    | sA :: sO :: sm :: sn :: rest =>
      match sA.toNat?, sO.toNat?, sm.toNat?, sn.toNat? with
      | some ar, some o, some m, some n =>
        if !(ar ≤ 1 && o ≤ 1 && 1 ≤ m && 1 ≤ n) then some badInput else
        withArgs (do let A ← pDense m n; let Q ← pDense m (min m n); let R ← pDense (min m n) n; pure (A, Q, R)) rest
          fun (A, Q, R) =>
            joinSp [showBool (Dense.qrExact A Q R), showBool (decide (Dense.qrDefect A Q R ≤ tol)),
                    showBool (Dense.upperTri R)]
      | _, _, _, _ => some badInput
    | _ => some badInput
  | "direct_qr_model" =>
    match args with
    | sO :: sm :: sn :: rest =>
      match sO.toNat?, sm.toNat?, sn.toNat? with
      | some o, some m, some n =>
        if !(o ≤ 1 && 1 ≤ m && 1 ≤ n) then some badInput else
        withArgs (pDense m n) rest fun A =>
          let rs := if o == 0 then n else 1
          let cs := if o == 0 then 1 else m
          let buf : Array Rat := (List.range m).foldl (fun b i => (List.range n).foldl (fun b j =>
            b.setIfInBounds (i * rs + j * cs) (A.get i j)) b) (Array.replicate (m * n) 0)
          let (F, _, q) := QRModel.factorize rsqrt m n rs cs buf
          joinSp [showVec F, showVec (Array.ofFn (n := m * n) (fun idx => QRModel.getQ q rs cs (idx.val / n) (idx.val % n)))]
      | _, _, _ => some badInput
    | _ => some badInput
  | "direct_qr_solve_model" =>
    match args with
    | sO :: sm :: sn :: rest =>
      match sO.toNat?, sm.toNat?, sn.toNat? with
      | some o, some m, some n =>
        if !(o ≤ 1 && 1 ≤ m && 1 ≤ n) then some badInput else
        withArgs (do let A ← pDense m n; let b ← pMany m pRat; pure (A, b.toArray)) rest fun (A, b) =>
          let rs := if o == 0 then n else 1
          let cs := if o == 0 then 1 else m
          let buf : Array Rat := (List.range m).foldl (fun bf i => (List.range n).foldl (fun bf j =>
            bf.setIfInBounds (i * rs + j * cs) (A.get i j)) bf) (Array.replicate (m * n) 0)
          showVec (QRModel.solve rsqrt m n rs cs buf b)
      | _, _, _ => some badInput
    | _ => some badInput
  | "direct_qr_seq" =>
    withArgs (do let ns ← pNat
                 if !(1 ≤ ns && ns ≤ 16) then (fail : P Unit)
                 pMany ns pQRStep) args
      fun steps =>
        let res := QRModel.runSeq rsqrt (steps.map (fun s => s.2.2.2.2))
        joinSp ((steps.zip res).map (fun (s, r) =>
          let (m, n, rs, cs, c) := s
          match c with
          | .factorize .. =>
            joinSp [showVec r.1, showVec (Array.ofFn (n := m * n) (fun idx => QRModel.getQ r.2 rs cs (idx.val / n) (idx.val % n)))]
          | .solve .. => showVec r.1))
  | "direct_qr_solve_check" =>
    match args with
    | sA :: sO :: sm :: sn :: rest =>
      match sA.toNat?, sO.toNat?, sm.toNat?, sn.toNat? with
      | some ar, some o, some m, some n =>
        if !(ar ≤ 1 && o ≤ 1 && 1 ≤ m && 1 ≤ n) then some badInput else
        withArgs (do let A ← pDense m n; let b ← pDense m 1; let x ← pDense n 1; pure (A, b, x)) rest
          fun (A, b, x) =>
            -- residual r = A x − b (m×1); tall: defect = ‖Aᵀ r‖_max, wide: defect = ‖r‖_max
            let r : Dense Rat := ⟨m, 1, Array.ofFn (n := m) (fun i => Dense.mulGet A x i.val 0 - b.get i.val 0)⟩
            let d : Rat :=
              if m ≥ n then Dense.foldIdx n 1 (fun j _ => (List.range m).foldl (fun s i => s + A.get i j * r.get i 0) 0)
              else Dense.foldIdx m 1 (fun i _ => r.get i 0)
            joinSp [showBool (d == 0), showBool (decide (d ≤ tol))]
      | _, _, _, _ => some badInput
    | _ => some badInput
  | _ => none

end Amgcl.Driver.Direct
