import Amgcl.Driver.Util
import Amgcl.Driver.Primitives2
import Amgcl.Model.Inverse
import Amgcl.Model.StaticMatrix
import Amgcl.Model.Rsqrt
/-!
Handlers for the C16 family, complex element types (harness/h_direct_smc.cpp) — the SAME generic model functions
(`Model/StaticMatrix.lean`, `Model/Inverse.lean`) executed at the carrier `CRat` (Gaussian rationals, `std::complex<Q>`):

* `direct_smc_lin N M c a b` · `direct_smc_mul N P M a b` · `direct_smc_assoc N P M L a b c` · `direct_smc_distrib N P M a b c` ·
  `direct_smc_inner N M x y` · `direct_smc_inverse N a` · `direct_smc_adj N M a x y`   `static_matrix<std::complex<Q>,N,M>`
* `direct_sm_adj N M a x y`            the adjoint op at the carrier `Rat` (`static_matrix<Q,N,M>`, `conj = id`)
* `direct_invc_dense n A t p`          `detail::inverse<std::complex<Q>>` on its three buffers

A complex number is two rationals `re im`.  The scalar `math::adjoint` is `cconj`; `math::norm` of a complex scalar is
`std::abs(std::complex<Q>)` = `cabs` (libstdc++'s scaled formula with the harness type's `rsqrt`, harness/cq.hpp).

The pivot search of `detail::inverse` compares magnitudes `math::norm(A[..])` (real numbers) with `>`.  The generic model
(`pivotSearch`) is written with `absK` and `<` of the carrier; at `CRat` the order is the one amgcl itself declares for complex
numbers (value_type/complex.hpp: `a < b := std::abs(a) < std::abs(b)`), under which `absK z = z` (nothing is below `0`) and
`pivot_mag < mag` is `cabs pivot_mag < cabs mag`: the same decisions as the C++ loop, state `pivot_mag` kept as the entry
instead of its magnitude.
-/
namespace Amgcl.Driver.DirectC
open Amgcl Amgcl.Driver Amgcl.Driver.Primitives2

def absRat (x : Rat) : Rat := if x < 0 then -x else x

/-- `std::norm(z) = re² + im²` -/
def cnorm2 (a : CRat) : Rat := a.re * a.re + a.im * a.im

instance : Neg CRat := ⟨fun a => ⟨-a.re, -a.im⟩⟩
/-- libstdc++ `complex<T>::operator/=`: `(z * conj w) / norm(w)` componentwise, total division -/
instance : Div CRat := ⟨fun a b =>
  let n := cnorm2 b
  ⟨(a.re * b.re + a.im * b.im) / n, (a.im * b.re - a.re * b.im) / n⟩⟩

/-- `std::abs(std::complex<Q>)`: `s * rsqrt((x/s)² + (y/s)²)`, `s = std::max(|x|, |y|)`; `0` for `z = 0` -/
def cabs (z : CRat) : Rat :=
  let ax := absRat z.re
  let ay := absRat z.im
  let s := if ax < ay then ay else ax
  if s == 0 then 0 else
  let x := z.re / s
  let y := z.im / s
  s * rsqrt (x * x + y * y)

/-- amgcl's order on complex numbers (value_type/complex.hpp): by magnitude -/
instance : LT CRat := ⟨fun a b => cabs a < cabs b⟩
instance : DecidableLT CRat := fun a b => inferInstanceAs (Decidable (cabs a < cabs b))

/-- carrier of the static-matrix ops: parser / printer of an element, scalar adjoint, and `sqrt(math::norm(s))` of `norm_impl` -/
structure Carrier (K : Type) where
  p : P K
  sh : K → String
  conj : K → K
  nrm : K → Rat

def ratCarrier : Carrier Rat := ⟨pRat, showRat, id, fun s => rsqrt (absRat s)⟩
def cxCarrier : Carrier CRat := ⟨pC, showC, cconj, fun s => rsqrt (cabs s)⟩

/-- the first `k` tokens as naturals -/
def takeNats : Nat → List String → Option (List Nat × List String)
  | 0, rest => some ([], rest)
  | _ + 1, [] => none
  | k + 1, t :: ts => do
      let n ← t.toNat?
      let (ns, rest) ← takeNats k ts
      pure (n :: ns, rest)

def in14 (n : Nat) : Bool := 1 ≤ n && n ≤ 4

section generic
variable {K : Type} [Zero K] [One K] [Add K] [Sub K] [Mul K] [Neg K] [Div K] [DecidableEq K] [LT K] [DecidableLT K]

def pSMatK (c : Carrier K) (N M : Nat) : P (SMat K N M) := do
  let l ← pMany (N * M) c.p
  pure ⟨l.toArray⟩

def showSMatK (c : Carrier K) {N M : Nat} (a : SMat K N M) : String := joinSp (a.buf.toList.map c.sh)

/-- `assocOk`: the shapes the harness instantiates for `(ab)c = a(bc)` -/
def smHandle (c : Carrier K) (assocOk : Nat → Nat → Nat → Nat → Bool) (kind : String) (args : List String) : Option String :=
  match kind with
  | "lin" =>
    match takeNats 2 args with
    | some ([N, M], rest) =>
      if !(in14 N && in14 M) then some badInput else
      withArgs (do let s ← c.p; let a ← pSMatK c N M; let b ← pSMatK c N M; pure (s, a, b)) rest
        fun (s, a, b) => joinSp [showSMatK c (a + b), showSMatK c (a - b), showSMatK c (SMat.smul s a), showSMatK c (-a),
                                 showSMatK c (SMat.adjoint c.conj a), showBool (SMat.isZero a),
                                 showRat (c.nrm (SMat.normSq c.conj a))]
    | _ => some badInput
  | "mul" =>
    match takeNats 3 args with
    | some ([N, Pd, M], rest) =>
      if !(in14 N && in14 Pd && in14 M) then some badInput else
      withArgs (do let a ← pSMatK c N Pd; let b ← pSMatK c Pd M; pure (a, b)) rest
        fun (a, b) => joinSp [showSMatK c (a * b), showSMatK c (SMat.adjoint c.conj (a * b))]
    | _ => some badInput
  | "assoc" =>
    match takeNats 4 args with
    | some ([N, Pd, M, Ld], rest) =>
      if !(assocOk N Pd M Ld) then some badInput else
      withArgs (do let a ← pSMatK c N Pd; let b ← pSMatK c Pd M; let d ← pSMatK c M Ld; pure (a, b, d)) rest
        fun (a, b, d) => joinSp [showSMatK c ((a * b) * d), showSMatK c (a * (b * d))]
    | _ => some badInput
  | "distrib" =>
    match takeNats 3 args with
    | some ([N, Pd, M], rest) =>
      if !(in14 N && in14 Pd && in14 M) then some badInput else
      withArgs (do let a ← pSMatK c N Pd; let b ← pSMatK c Pd M; let d ← pSMatK c Pd M; pure (a, b, d)) rest
        fun (a, b, d) => joinSp [showSMatK c (a * (b + d)), showSMatK c (a * b + a * d), showSMatK c (a * (b - d))]
    | _ => some badInput
  | "inner" =>
    match takeNats 2 args with
    | some ([N, M], rest) =>
      if !(in14 N && in14 M) then some badInput else
      if M = 1 then
        withArgs (do let x ← pSMatK c N 1; let y ← pSMatK c N 1; pure (x, y)) rest
          fun (x, y) => c.sh (SMat.innerVec c.conj x y)
      else
        withArgs (do let x ← pSMatK c N M; let y ← pSMatK c N M; pure (x, y)) rest
          fun (x, y) => showSMatK c (SMat.innerMat c.conj x y)
    | _ => some badInput
  | "adj" =>
    match takeNats 2 args with
    | some ([N, M], rest) =>
      if !(in14 N && in14 M) then some badInput else
      withArgs (do let a ← pSMatK c N M; let x ← pSMatK c M 1; let y ← pSMatK c N 1; pure (a, x, y)) rest
        fun (a, x, y) =>
          let ah := SMat.adjoint c.conj a
          joinSp [showSMatK c ah, c.sh (SMat.innerVec c.conj (a * x) y), c.sh (SMat.innerVec c.conj x (ah * y)),
                  showSMatK c (ah * a)]
    | _ => some badInput
  | "inverse" =>
    match takeNats 1 args with
    | some ([N], rest) =>
      if !(in14 N) then some badInput else
      withArgs (pSMatK c N N) rest fun a =>
        let (F, q) := luPhase N a.buf (Array.replicate N 0)
        if (List.range N).any (fun i => get2 N F (q.getD i 0) i == 0) then "singular" else
        showSMatK c (SMat.inverse a)
    | _ => some badInput
  | _ => none

end generic

def assocC (n p m l : Nat) : Bool :=
  (1 ≤ n && n ≤ 2 && 1 ≤ p && p ≤ 2 && 1 ≤ m && m ≤ 2 && 1 ≤ l && l ≤ 2) || (n == p && p == m && m == l && (n == 3 || n == 4))

def handle (op : String) (args : List String) : Option String :=
  if op == "direct_sm_adj" then smHandle ratCarrier (fun _ _ _ _ => false) "adj" args
  else if op.startsWith "direct_smc_" then smHandle cxCarrier assocC (op.drop 11).toString args
  else if op == "direct_invc_dense" then
    withArgs (do let n ← pNat; let A ← pCVec; let t ← pCVec; let p ← pNatVec; pure (n, A, t, p)) args
      fun (n, A, t, p) =>
        if !(n ≥ 1 && A.size == n * n && t.size == n * n && p.size == n) then badInput else
        let (F, q) := luPhase n A p
        if (List.range n).any (fun i => get2 n F (q.getD i 0) i == 0) then "singular" else
        let (A', t', p') := inverse n A t p
        joinSp [showCVec A', showCVec t', showNatVec p']
  else none

end Amgcl.Driver.DirectC
