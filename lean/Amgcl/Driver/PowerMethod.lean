import Amgcl.Driver.Util
import Amgcl.Model.PowerMethod
import Amgcl.Model.Rsqrt
/-! handlers for the power-method branch of `backend::spectral_radius` (C08 / C06):
`pm_radius scaled iters A b0` → the returned radius;  `pm_cheb_apply deg hi lo scaled iters A f b0` → `chebyshev::apply`
with `prm.power_iters = iters`.  `b0` is the start vector the library's generator produces (replayed by the harness). -/
namespace Amgcl.Driver.PowerMethod
open Amgcl Amgcl.Driver Amgcl.Relax

def pBool : P Bool := do
  let n ← pNat
  if n = 0 then pure false else if n = 1 then pure true else fail

/-- admissible input: square well-formed matrix, `iters ≥ 1`, `b0` of the matrix size, and when `scaled` exactly one stored
non-zero diagonal entry per row (what the library requires of a matrix it scales by the diagonal) -/
def admissible (sc : Bool) (it : Nat) (A : CRS Rat) (b0 : Vec Rat) : Bool :=
  A.wfb && A.nrows == A.ncols && it ≥ 1 && b0.size == A.nrows &&
    (!sc || (List.range A.nrows).all (fun i => ((A.row i).filter (fun cv => cv.1 == i)).length == 1 &&
      ((A.row i).filter (fun cv => cv.1 == i && cv.2 != 0)).length == 1))

def handle (op : String) (args : List String) : Option String :=
  match op with
  | "pm_radius" => withArgs (do let sc ← pBool; let it ← pNat; let A ← pCRS; let b ← pVec; pure (sc, it, A, b)) args
      fun (sc, it, A, b) => if admissible sc it A b then showRat (powerMethod rsqrt sc A it b) else badInput
  | "pm_cheb_apply" =>
    withArgs (do let deg ← pNat; let hi ← pRat; let lo ← pRat; let sc ← pBool; let it ← pNat; let A ← pCRS; let f ← pVec
                 let b ← pVec; pure (deg, hi, lo, sc, it, A, f, b)) args
      fun (deg, hi, lo, sc, it, A, f, b) =>
        if admissible sc it A b && f.size == A.nrows then
          let s := chebSetupPower rsqrt { degree := deg, higher := hi, lower := lo, scale := sc } it A b
          showRat (powerMethod rsqrt sc A it b) ++ " " ++ showVec (chebSolve s A f (vclear A.nrows) s.p s.r).1
        else badInput
  | _ => none

end Amgcl.Driver.PowerMethod
