import Amgcl.Driver.Util
import Amgcl.Model.Mixing
/-!
handler for the compile-time table of `backend::detail::common_scalar_backend` (C13)

  mix_common p1 b1 p2 b2   -> `p 1` (the common backend is builtin<scalar kind p>) | `none` (no member `type`)
                              p: 0 float, 1 double, 2 long double; b: block size (1 = scalar)
-/
namespace Amgcl.Driver.Mixing
open Amgcl Amgcl.Driver Amgcl.Mixing

def precOf : Nat → Option Prec
  | 0 => some .f32
  | 1 => some .f64
  | 2 => some .f80
  | _ => none

def precNo : Prec → Nat
  | .f32 => 0
  | .f64 => 1
  | .f80 => 2

def handle (op : String) (args : List String) : Option String :=
  match op with
  | "mix_common" =>
    withArgs (do let p1 ← pNat; let b1 ← pNat; let p2 ← pNat; let b2 ← pNat; pure (p1, b1, p2, b2)) args
      fun (p1, b1, p2, b2) =>
      match precOf p1, precOf p2 with
      | some q1, some q2 =>
        if !(1 ≤ b1 && b1 ≤ 4 && 1 ≤ b2 && b2 ≤ 4) then badInput else
        match commonScalarBackend ⟨q1, b1⟩ ⟨q2, b2⟩ with
        | some r => joinSp [toString (precNo r.prec), toString r.rows]
        | none => "none"
      | _, _ => badInput
  | _ => none

end Amgcl.Driver.Mixing
