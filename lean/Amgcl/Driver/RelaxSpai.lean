import Amgcl.Driver.Util
import Amgcl.Model.Rsqrt
import Amgcl.Model.RelaxSpai1
/-!
Handlers for the SPAI-1 model (C06, `Model/RelaxSpai1.lean`).

    relax_spai1_m A                       the matrix `M` built by the constructor (CRS, stored order)
    relax_spai1_pre|post A f x tmp        one sweep: `x' tmp'`
    relax_spai1_apply A f                 `x'`

`A` must be square and well formed; a matrix with an empty row is answered `bad-input` (the C++ constructor forms `&B[0]`,
`&ek[0]` on empty vectors for such a row; the harness does not run the code on it).
-/
namespace Amgcl.Driver.RelaxSpai
open Amgcl Amgcl.Driver Amgcl.Relax

def okMat (A : CRS Rat) : Bool :=
  A.wfb && A.ncols == A.nrows && (List.range A.nrows).all (fun i => !(A.row i).isEmpty)

def handle (op : String) (args : List String) : Option String :=
  match op with
  | "relax_spai1_m" =>
    withArgs pCRS args fun A => if okMat A then showCRS (spai1Setup rsqrt A) else badInput
  | "relax_spai1_pre" | "relax_spai1_post" =>
    withArgs (do let A ← pCRS; let f ← pVec; let x ← pVec; let t ← pVec; pure (A, f, x, t)) args fun (A, f, x, t) =>
      if okMat A && f.size == A.nrows && x.size == A.nrows && t.size == A.nrows then
        let sm := spai1 rsqrt
        match sm.setup A with
        | .ok M =>
          let r := if op == "relax_spai1_pre" then sm.applyPre M A f x t else sm.applyPost M A f x t
          showVec r.1 ++ " " ++ showVec r.2
        | _ => badInput
      else badInput
  | "relax_spai1_apply" =>
    withArgs (do let A ← pCRS; let f ← pVec; pure (A, f)) args fun (A, f) =>
      if okMat A && f.size == A.nrows then
        let sm := spai1 rsqrt
        match sm.setup A with
        | .ok M => showVec (sm.apply M A f)
        | _ => badInput
      else badInput
  | _ => none

end Amgcl.Driver.RelaxSpai
