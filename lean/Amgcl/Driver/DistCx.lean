import Amgcl.Driver.Util
import Amgcl.Driver.Primitives2
import Amgcl.Driver.Dist
import Amgcl.Model.Dist
/-! handlers for the C11 distributed-matrix operations on COMPLEX data (`harness/h_mpi_cx.cpp`, value type
`std::complex<double>` on exact-in-binary64 Gaussian rationals): the SAME generic model functions of `Model/Dist.lean`
executed at the carrier `CRat` (pairs of rationals) with `conj`/`adj` := complex conjugation.  A complex number is
written as two rationals `re im`; everything else (partitions, printing of a distributed matrix, shape conditions)
is as in `Driver/Dist.lean`.

`cdist_gersh`: `math::norm` of a complex number is `std::abs`; the Gershgorin loop reads the values only through
`norm(v)` and `norm(inverse(dia)) = 1 / norm(dia)`, and `dia` is selected by POSITION (`c == i`), so the estimate of
`A` is the estimate (at `Rat`) of the entrywise modulus matrix `|A|`.  The op is defined only for entries whose
modulus is rational (`re² + im²` a perfect square), otherwise both sides answer `bad-input`. -/
namespace Amgcl.Driver.DistCx
open Amgcl Amgcl.Driver Amgcl.Dist Amgcl.Driver.Primitives2

instance : Neg CRat := ⟨fun a => ⟨-a.re, -a.im⟩⟩
instance : Inhabited CRat := ⟨⟨0, 0⟩⟩

def pPart : P (List Nat) := Dist.pPart
def pBool : P Bool := Dist.pBool

/-- both components exact in binary64 (rule of `Driver/Dist.lean`) -/
def pC : P CRat := do let r ← Dist.pRat; let i ← Dist.pRat; pure ⟨r, i⟩
def pCVec : P (Vec CRat) := pVecOf pC
def pCCRS : P (CRS CRat) := pCRSOf pC
def showCCRS (A : CRS CRat) : String := showCRSOf showC A

def showDist (Ds : List (DistMat CRat)) (colPart : List Nat) : String :=
  let pats := patternsOf Ds colPart
  joinSp (Ds.zipIdx.map (fun Dr =>
    showCCRS Dr.1.loc ++ " " ++ showCCRS { Dr.1.rem with ncols := (pats.getD Dr.2 default).remCols.length }))

def showPattern (D : DistMat CRat) (p : CommPattern) : String :=
  joinSp [Dist.showNats p.recvNbr, Dist.showNats p.recvPtr, Dist.showNats p.sendNbr, Dist.showNats p.sendPtr,
    Dist.showNats p.sendCol, Dist.showNats ((remColList D).map p.localIndex),
    Dist.showNats ((remColList D).map p.nbrIndex)]

def okMat (A : CRS CRat) (rowPart colPart : List Nat) : Bool :=
  A.wfb && rowPart.length == colPart.length && rowPart.sum == A.nrows && colPart.sum == A.ncols

/-- exact square root of a natural number, if it is a perfect square -/
def natSqrt? (n : Nat) : Option Nat := let s := Nat.sqrt n; if s * s == n then some s else none

/-- the modulus of a Gaussian rational, if it is rational -/
def cabs? (c : CRat) : Option Rat :=
  let q := c.re * c.re + c.im * c.im
  match natSqrt? q.num.toNat, natSqrt? q.den with
  | some a, some b => some (Rat.divInt (a : Int) (b : Int))
  | _, _ => none

/-- the entrywise modulus matrix (same positions, same stored order), if every modulus is rational -/
def absCRS? (A : CRS CRat) : Option (CRS Rat) :=
  let rows := A.rows.toList.map (fun r => r.map (fun cv => (cv.1, cabs? cv.2)))
  if rows.all (fun r => r.all (fun cv => cv.2.isSome)) then
    some { ncols := A.ncols, rows := (rows.map (fun r => r.map (fun cv => (cv.1, cv.2.getD 0)))).toArray }
  else none

def handle (op : String) (args : List String) : Option String :=
  match op with
  | "cdist_split" => withArgs (do let rp ← pPart; let cp ← pPart; let A ← pCCRS; pure (rp, cp, A)) args
      fun (rp, cp, A) =>
        if !okMat A rp cp then badInput else
        let Ds := split A rp cp
        let pats := patternsOf Ds cp
        joinSp ([toString A.nrows, toString A.ncols, toString A.nnz, showDist Ds cp] ++
          Ds.zipIdx.map (fun Dr => showPattern Dr.1 (pats.getD Dr.2 default)))
  | "cdist_spmv" =>
      withArgs (do let rp ← pPart; let cp ← pPart; let a ← pC; let A ← pCCRS; let x ← pCVec; let b ← pC; let y ← pCVec
                   pure (rp, cp, a, A, x, b, y)) args
      fun (rp, cp, a, A, x, b, y) =>
        if !okMat A rp cp || x.size != A.ncols || y.size != A.nrows then badInput else
        showCVec (concatVec (distSpmv a (split A rp cp) cp (splitVec x cp) b (splitVec y rp)))
  | "cdist_residual" =>
      withArgs (do let rp ← pPart; let cp ← pPart; let A ← pCCRS; let f ← pCVec; let x ← pCVec; pure (rp, cp, A, f, x)) args
      fun (rp, cp, A, f, x) =>
        if !okMat A rp cp || x.size != A.ncols || f.size != A.nrows then badInput else
        showCVec (concatVec (distResidual (splitVec f rp) (split A rp cp) cp (splitVec x cp)))
  | "cdist_ip" => withArgs (do let p ← pPart; let x ← pCVec; let y ← pCVec; pure (p, x, y)) args
      fun (p, x, y) =>
        if x.size != p.sum || y.size != p.sum then badInput else
        showC (distInnerProduct cconj (splitVec x p) (splitVec y p))
  | "cdist_norm" => withArgs (do let p ← pPart; let x ← pCVec; pure (p, x)) args
      -- `<x, x>` through mpi::inner_product (the quantity every distributed Krylov solver takes the root of)
      fun (p, x) =>
        if x.size != p.sum then badInput else
        showC (distInnerProduct cconj (splitVec x p) (splitVec x p))
  | "cdist_transpose" => withArgs (do let rp ← pPart; let cp ← pPart; let A ← pCCRS; pure (rp, cp, A)) args
      fun (rp, cp, A) =>
        if !okMat A rp cp then badInput else showDist (distTranspose cconj (split A rp cp) rp cp) rp
  | "cdist_remote_rows" | "cdist_product" =>
      withArgs (do let rp ← pPart; let mp ← pPart; let cp ← pPart; let A ← pCCRS; let B ← pCCRS; pure (rp, mp, cp, A, B)) args
      fun (rp, mp, cp, A, B) =>
        if !okMat A rp mp || !okMat B mp cp then badInput else
        let As := split A rp mp
        let Bs := split B mp cp
        if op == "cdist_product" then showDist (distProduct As Bs mp cp) cp
        else
          let pats := patternsOf As mp
          joinSp ((List.range As.length).map (fun r =>
            showCCRS ⟨0, (remoteRows pats Bs cp r).toArray⟩))
  | "cdist_scale" => withArgs (do let rp ← pPart; let cp ← pPart; let A ← pCCRS; let s ← pC; pure (rp, cp, A, s)) args
      fun (rp, cp, A, s) => if !okMat A rp cp then badInput else showDist (distScale (split A rp cp) s) cp
  | "cdist_sort" => withArgs (do let rp ← pPart; let cp ← pPart; let A ← pCCRS; pure (rp, cp, A)) args
      fun (rp, cp, A) => if !okMat A rp cp then badInput else showDist (distSortRows (split A rp cp)) cp
  | "cdist_gersh" => withArgs (do let sc ← pBool; let p ← pPart; let A ← pCCRS; pure (sc, p, A)) args
      fun (sc, p, A) =>
        if !okMat A p p then badInput else
        match absCRS? A with
        | none => badInput
        | some M => showRat (distGershgorin sc (split M p p))
  | "cdist_power" => withArgs (do let sc ← pBool; let it ← pNat; let p ← pPart; let A ← pCCRS; pure (sc, it, p, A)) args
      -- power-method estimate (rank-count-seeded random start vector): not modelled, rank-consistency token only
      fun (_, it, p, A) => if !okMat A p p || it == 0 then badInput else "rank-consistent"
  | _ => none

end Amgcl.Driver.DistCx
