import Amgcl.Driver.Util
import Amgcl.Model.Dist
/-! handlers for the C11 distributed-matrix operations (`harness/h_mpi.cpp`).  Partitions are vectors
`np s₁ … s_np`; a distributed matrix result is printed rank by rank as `loc rem` (`rem` with GLOBAL columns and
`ncols = recv.count()` of its communication pattern). -/
namespace Amgcl.Driver.Dist
open Amgcl Amgcl.Driver Amgcl.Dist

def maxNp : Nat := 8

def pPart : P (List Nat) := do
  let v ← pNatVec
  if v.size = 0 || v.size > maxNp then fail else pure v.toList

/-- exact-in-binary64 data (DESIGN.md §2.6), the rule of `exact()` in harness/h_mpi.cpp: denominator a power of two
`≤ 2^20`, `|numerator| < 2^53` -/
def exactB64 (q : Rat) : Bool :=
  q.num.natAbs < 2 ^ 53 && q.den ≤ 2 ^ 20 && (List.range 21).any (fun k => q.den == 2 ^ k)

def pRat : P Rat := do
  let q ← Driver.pRat
  if exactB64 q then pure q else fail
def pVec : P (Vec Rat) := pVecOf pRat
def pCRS : P (CRS Rat) := pCRSOf pRat

def pBool : P Bool := do
  let n ← pNat
  if n = 0 then pure false else if n = 1 then pure true else fail

def showNats (l : List Nat) : String := showNatVec l.toArray

def showDist (Ds : List (DistMat Rat)) (colPart : List Nat) : String :=
  let pats := patternsOf Ds colPart
  joinSp (Ds.zipIdx.map (fun Dr =>
    showCRS Dr.1.loc ++ " " ++ showCRS { Dr.1.rem with ncols := (pats.getD Dr.2 default).remCols.length }))

def showPattern (D : DistMat Rat) (p : CommPattern) : String :=
  joinSp [showNats p.recvNbr, showNats p.recvPtr, showNats p.sendNbr, showNats p.sendPtr, showNats p.sendCol,
    showNats ((remColList D).map p.localIndex), showNats ((remColList D).map p.nbrIndex)]

/-- shape conditions shared by all matrix ops -/
def okMat (A : CRS Rat) (rowPart colPart : List Nat) : Bool :=
  A.wfb && rowPart.length == colPart.length && rowPart.sum == A.nrows && colPart.sum == A.ncols

def handle (op : String) (args : List String) : Option String :=
  match op with
  | "dist_split" => withArgs (do let rp ← pPart; let cp ← pPart; let A ← pCRS; pure (rp, cp, A)) args
      fun (rp, cp, A) =>
        if !okMat A rp cp then badInput else
        let Ds := split A rp cp
        let pats := patternsOf Ds cp
        joinSp ([toString A.nrows, toString A.ncols, toString A.nnz, showDist Ds cp] ++
          Ds.zipIdx.map (fun Dr => showPattern Dr.1 (pats.getD Dr.2 default)))
  | "dist_spmv" | "dist_copy_spmv" =>
      withArgs (do let rp ← pPart; let cp ← pPart; let a ← pRat; let A ← pCRS; let x ← pVec; let b ← pRat; let y ← pVec
                   pure (rp, cp, a, A, x, b, y)) args
      fun (rp, cp, a, A, x, b, y) =>
        if !okMat A rp cp || x.size != A.ncols || y.size != A.nrows then badInput else
        showVec (concatVec (distSpmv a (split A rp cp) cp (splitVec x cp) b (splitVec y rp)))
  | "dist_residual" =>
      withArgs (do let rp ← pPart; let cp ← pPart; let A ← pCRS; let f ← pVec; let x ← pVec; pure (rp, cp, A, f, x)) args
      fun (rp, cp, A, f, x) =>
        if !okMat A rp cp || x.size != A.ncols || f.size != A.nrows then badInput else
        showVec (concatVec (distResidual (splitVec f rp) (split A rp cp) cp (splitVec x cp)))
  | "dist_ip" => withArgs (do let p ← pPart; let x ← pVec; let y ← pVec; pure (p, x, y)) args
      fun (p, x, y) =>
        if x.size != p.sum || y.size != p.sum then badInput else
        showRat (distInnerProduct id (splitVec x p) (splitVec y p))
  | "dist_transpose" => withArgs (do let rp ← pPart; let cp ← pPart; let A ← pCRS; pure (rp, cp, A)) args
      fun (rp, cp, A) =>
        if !okMat A rp cp then badInput else showDist (distTranspose id (split A rp cp) rp cp) rp
  | "dist_remote_rows" | "dist_product" =>
      withArgs (do let rp ← pPart; let mp ← pPart; let cp ← pPart; let A ← pCRS; let B ← pCRS; pure (rp, mp, cp, A, B)) args
      fun (rp, mp, cp, A, B) =>
        if !okMat A rp mp || !okMat B mp cp then badInput else
        let As := split A rp mp
        let Bs := split B mp cp
        if op == "dist_product" then showDist (distProduct As Bs mp cp) cp
        else
          let pats := patternsOf As mp
          joinSp ((List.range As.length).map (fun r =>
            showCRS ⟨0, (remoteRows pats Bs cp r).toArray⟩))
  | "dist_scale" => withArgs (do let rp ← pPart; let cp ← pPart; let A ← pCRS; let s ← pRat; pure (rp, cp, A, s)) args
      fun (rp, cp, A, s) => if !okMat A rp cp then badInput else showDist (distScale (split A rp cp) s) cp
  | "dist_sort" => withArgs (do let rp ← pPart; let cp ← pPart; let A ← pCRS; pure (rp, cp, A)) args
      fun (rp, cp, A) => if !okMat A rp cp then badInput else showDist (distSortRows (split A rp cp)) cp
  | "dist_gersh" => withArgs (do let sc ← pBool; let p ← pPart; let A ← pCRS; pure (sc, p, A)) args
      fun (sc, p, A) => if !okMat A p p then badInput else showRat (distGershgorin sc (split A p p))
  | "dist_power" => withArgs (do let sc ← pBool; let it ← pNat; let p ← pPart; let A ← pCRS; pure (sc, it, p, A)) args
      -- the power-method estimate starts from a rank-count-seeded random vector: not modelled; the property only
      -- requires the value to be identical on all ranks, which the harness checks bitwise and reports as a token
      fun (_, it, p, A) => if !okMat A p p || it == 0 then badInput else "rank-consistent"
  | "dist_check" => withArgs pNatVec args
      -- `communicator::check(cond, msg)`: all ranks throw iff the condition is false on some rank
      fun f => if f.size = 0 || f.size > maxNp || f.any (· > 1) then badInput
               else if f.all (· == 1) then "ok" else "precondition"
  | _ => none

end Amgcl.Driver.Dist
