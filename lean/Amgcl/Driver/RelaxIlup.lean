import Amgcl.Driver.Util
import Amgcl.Model.RelaxJacobi
import Amgcl.Model.RelaxIluk
import Amgcl.Model.RelaxIlup
/-!
Handlers for the model of `ilup.hpp` as written (C06, `Model/RelaxIlup.lean`).

    relax_ilupw_factors k A                 observable factors (explicit zeros dropped; `singular` when a stored pivot is 0)
    relax_ilupw_pre|post k ω A f x tmp      one sweep: `x' tmp'`
    relax_ilupw_apply k A f                 `x'`
    relax_ilupw_pad k A                     the matrix handed to `ilu0` (pattern of `A^(k+1)`, values of `A`), stored order

`A` must be square, well formed, with sorted rows that store their diagonal; anything else is `bad-input`.
-/
namespace Amgcl.Driver.RelaxIlup
open Amgcl Amgcl.Driver Amgcl.Relax

def okMat (A : CRS Rat) : Bool := A.wfb && A.ncols == A.nrows && A.sortedb && hasDiagb A

def outcome {S : Type} (o : SetupOutcome S) (k : S → String) : String :=
  match o with
  | .ok s => k s
  | .precondition => "precondition"
  | .undefinedInput => badInput

def showFactors (F : IluFactors Rat) : String :=
  showCRS F.L ++ " " ++ showCRS F.U ++ " " ++ showVec F.D

def showObservable (F : IluFactors Rat) : String :=
  if F.D.any (· == 0) then "singular" else showFactors F.dropZeros

def handle (op : String) (args : List String) : Option String :=
  match op with
  | "relax_ilupw_factors" =>
    withArgs (do let k ← pNat; let A ← pCRS; pure (k, A)) args fun (k, A) =>
      if okMat A then outcome (ilupFactorW k A) showObservable else badInput
  | "relax_ilupw_pad" =>
    withArgs (do let k ← pNat; let A ← pCRS; pure (k, A)) args fun (k, A) =>
      if okMat A then (if k = 0 then showCRS A else outcome (ilupPad k A) showCRS) else badInput
  | "relax_ilupw_pre" | "relax_ilupw_post" =>
    withArgs (do let k ← pNat; let w ← pRat; let A ← pCRS; let f ← pVec; let x ← pVec; let t ← pVec; pure (k, w, A, f, x, t)) args
      fun (k, w, A, f, x, t) =>
      if okMat A && f.size == A.nrows && x.size == A.nrows && t.size == A.nrows then
        let sm := ilup k w
        outcome (sm.setup A) fun s =>
          let r := if op == "relax_ilupw_pre" then sm.applyPre s A f x t else sm.applyPost s A f x t
          showVec r.1 ++ " " ++ showVec r.2
      else badInput
  | "relax_ilupw_apply" =>
    withArgs (do let k ← pNat; let A ← pCRS; let f ← pVec; pure (k, A, f)) args fun (k, A, f) =>
      if okMat A && f.size == A.nrows then
        let sm := ilup k (1 : Rat)
        outcome (sm.setup A) fun s => showVec (sm.apply s A f)
      else badInput
  | _ => none

end Amgcl.Driver.RelaxIlup
