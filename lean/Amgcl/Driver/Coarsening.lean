import Amgcl.Driver.Util
import Amgcl.Model.SmoothedAggregation
import Amgcl.Model.ParamGlue
import Amgcl.Model.CoarseningChecks
/-!
handlers for the coarsening models (C04)

```
aggr_pwmatrix  b A                       -> CRS | precondition
aggr_plain     eps A                     -> count id[] strong[] | empty_level
aggr_pointwise eps b min_aggregate A     -> count id[] strong[] | empty_level | precondition
aggr_ptent     naggr id[]                -> CRS
aggr_transfer  eps b A                   -> CRS (P) | empty_level | precondition
sa_transfer    lvl eps b relax est A     -> CRS (P) | empty_level | precondition
rs_rowsum      eps do_trunc eps_trunc A P          -> verdict nrows      (V-grade predicate on the implementation's P)
ptent_ns       bs cols tol naggr id[] B[] P Bc[]   -> shape repro ortho  (V-grade predicates, null-space branch)
```
`eps`, `relax` are the exact rational values of the `float` parameters; `lvl` is the number of earlier
`transfer_operators` calls on the same `smoothed_aggregation` object (each successful one halves `eps_strong`).
-/
namespace Amgcl.Driver.Coarsening
open Amgcl Amgcl.Driver Amgcl.ParamGlue

def qabs (x : Rat) : Rat := if x < 0 then -x else x

def showFlags (S : Array (List Bool)) : String :=
  let fl := S.toList.flatten
  joinSp (toString fl.length :: fl.map showBool)

def showAggr (a : Aggregates) : String :=
  joinSp [toString a.count, showIntVec a.id, showFlags a.strong]

def showOutcome {α} (f : α → String) : Outcome α → String
  | .ok a => f a
  | .emptyLevel => "empty_level"
  | .precondition => "precondition"

def squareWf (A : CRS Rat) : Bool := A.wfb && A.nrows == A.ncols

def pBool : P Bool := do
  let t ← tok
  if t = "0" then pure false else if t = "1" then pure true else fail

/-- `eps_strong` after `lvl` calls of `smoothed_aggregation::transfer_operators(A)` on one object: a call that
throws (`empty_level`, `precondition`) leaves before the halving statement -/
def epsAfter (b : Nat) (A : CRS Rat) : Nat → Rat → Option Rat
  | 0, e => some e
  | n + 1, e => do
    let e2 ← f32Square e
    match pointwiseAggregates qabs e2 b 0 A with
    | .ok _ => (f32Half e).bind (epsAfter b A n)
    | _ => epsAfter b A n e

def handle (op : String) (args : List String) : Option String :=
  match op with
  | "aggr_pwmatrix" => withArgs (do let b ← pNat; let A ← pCRS; pure (b, A)) args
      fun (b, A) => if A.wfb && b ≥ 1 then showOutcome showCRS (pointwiseMatrix qabs A b) else badInput
  | "aggr_plain" => withArgs (do let e ← pRat; let A ← pCRS; pure (e, A)) args
      fun (e, A) =>
        match f32Square e with
        | some e2 => if squareWf A then showOutcome showAggr (plainAggregates e2 A) else badInput
        | none => badInput
  | "aggr_pointwise" => withArgs (do let e ← pRat; let b ← pNat; let m ← pNat; let A ← pCRS; pure (e, b, m, A)) args
      fun (e, b, m, A) =>
        match f32Square e with
        | some e2 => if squareWf A && b ≥ 1 then showOutcome showAggr (pointwiseAggregates qabs e2 b m A) else badInput
        | none => badInput
  | "aggr_ptent" => withArgs (do let na ← pNat; let id ← pIntVec; pure (na, id)) args
      fun (na, id) =>
        if id.all (fun v => v < (na : Int)) then showCRS (tentativeProlongation id.size na id : CRS Rat) else badInput
  | "aggr_transfer" => withArgs (do let e ← pRat; let b ← pNat; let A ← pCRS; pure (e, b, A)) args
      fun (e, b, A) =>
        match ({ epsStrong := e, blockSize := b } : CoarseningParamsQ).toAggr with
        | some prm => if squareWf A && b ≥ 1 then showOutcome (fun t => showCRS t.P) (aggregationTransfer qabs prm A) else badInput
        | none => badInput
  | "sa_transfer" => withArgs (do
        let lvl ← pNat; let e ← pRat; let b ← pNat; let rlx ← pRat; let est ← pBool; let A ← pCRS
        pure (lvl, e, b, rlx, est, A)) args
      fun (lvl, e, b, rlx, est, A) =>
        match (epsAfter b A lvl e).bind (fun e' =>
            ({ epsStrong := e', blockSize := b, relax := rlx, estimateSpectralRadius := est } : CoarseningParamsQ).toSA) with
        | some prm =>
          if squareWf A && b ≥ 1 && (ratToF32 rlx).isSome then
            showOutcome (fun t => showCRS t.P) (smoothedAggregationTransfer qabs prm A) else badInput
        | none => badInput
  | "rs_rowsum" => withArgs (do
        let e ← pRat; let tr ← pBool; let et ← pRat; let A ← pCRS; let P ← pCRS
        pure (e, tr, et, A, P)) args
      fun (e, _, et, A, P) =>
        if squareWf A && (ratToF32 e).isSome && (ratToF32 et).isSome then
          let res := Coarsening.rsRowSumCheck qabs (Rat.divInt 1 ((2 ^ 51 : Nat) : Int)) e A P
          joinSp [showBool res.1, toString res.2]
        else badInput
  | "ptent_ns" => withArgs (do
        let bs ← pNat; let cols ← pNat; let tol ← pRat; let na ← pNat; let id ← pIntVec; let B ← pVec
        let P ← pCRS; let Bc ← pVec
        pure (bs, cols, tol, na, id, B, P, Bc)) args
      fun (bs, cols, tol, na, id, B, P, Bc) =>
        if bs ≥ 1 && cols ≥ 1 && B.size == id.size * cols && P.wfb && P.ncols == (na / bs) * cols
            && Bc.size == (na / bs) * cols * cols && id.all (fun v => v < (na : Int)) then
          joinSp [showBool (Coarsening.ptentShape bs cols id P), showBool (Coarsening.reproducesB tol cols id P Bc B),
                  showBool (Coarsening.orthonormalCols tol P)]
        else badInput
  | _ => none

end Amgcl.Driver.Coarsening
