import Amgcl.Driver.Util
import Amgcl.Driver.DirectC
import Amgcl.Driver.Solvers
import Amgcl.Model.SolverGMRESC
import Amgcl.Model.SolverCplx2
import Amgcl.Model.SolverBiCGStabLC
import Amgcl.Driver.Solvers2
/-!
Handlers for the Krylov solvers at the EXACT complex value type `std::complex<Q>` (harness/h_cplx_exact.cpp): the SAME generic model
functions of `Model/Solver{CG,BiCGStab,Richardson}.lean` and the `conj`-parametrised GMRES / FGMRES of `Model/SolverGMRESC.lean`,
executed at the carrier `CRat` (Gaussian rationals).

    cxs_cg         maxiter tol abstol                 A PREC f x0
    cxs_bicgstab   side maxiter tol abstol            A PREC f x0
    cxs_richardson damping maxiter tol abstol         A PREC f x0
    cxs_gmres      side M maxiter tol abstol          A PREC f x0
    cxs_fgmres     M maxiter tol abstol               A PREC f x0
    cxs_lgmres     side M K maxiter tol abstol        A PREC f x0      (`always_reset` = true, a fresh object)
    cxs_bicgstabl  side L delta convex maxiter tol abstol   A PREC f x0      (`delta` a non-negative real)
    cxs_idrs       s omega smoothing replacement maxiter tol abstol   A PREC f x0 RAW

`RAW` = the `s` REAL random vectors the constructor of `idrs` draws (one thread, `mt19937(0)`); the shadow vector entries are
`math::constant<std::complex<Q>>(c) = (c, c)`; `IDRs.makeP` is the constructor's orthonormalisation.

`tol`, `abstol`, `damping` are non-negative real rationals (`scalar_type = Q`); all other numbers are `re im`.

How the code turns complex scalars into real ones, and how that is instantiated here:
* `inner_product(x, y) = Σ x_i conj(y_i)` (value_type/complex.hpp:74-80): `ip = innerProductSerial cconj`;
* a real `scalar_type` value `r` is the Gaussian rational `(r, 0)`; `complex ∘ real` operations of libstdc++ (`z * r`, `z / r`, `r * z`)
  are the componentwise ones, equal in exact arithmetic to the complex operation with `(r, 0)` (total division on both sides);
* `<` on `CRat` is the order amgcl declares for complex numbers (value_type/complex.hpp:97: by magnitude, instance in `DirectC`): on
  the embedded non-negative reals the models compare (`norm_rhs < eps`, `res > eps`, `std::max`) it is the order of `Q` because
  `cabs (r, 0) = |r|` exactly (`rsqrt 1 = 1`); `absK` (`if x < 0 then -x else x`) is the identity since nothing is below `0`;
  `std::abs(dy) > std::abs(dx)` of `generate_plane_rotation` and `inner_res = std::abs(s[j+1]) <= eps` are magnitude comparisons in the
  code itself.  Negative `tol` / `abstol` are therefore rejected as `bad-input` on both sides;
* cg / bicgstab / richardson: `norm(x) = sqrt(math::norm(<x,x>))`, `math::norm` of a complex scalar = `std::abs` = `cabs`: the models' `sqrt`
  parameter is `z ↦ (rsqrt (cabs z), 0)`;
* `math::norm(ts / (norm_t * norm_s))` in `omega()` of idrs.hpp, whose VALUE is used, is the parameter `absC = z ↦ (cabs z, 0)` of
  `IDRs.omegaFnC` (`Model/SolverCplx2.lean`);
* gmres / fgmres / lgmres / idrs: `norm(x) = std::abs(sqrt(<x,x>))` and `sqrt(identity + adjoint(tmp) * tmp)` use `std::sqrt(std::complex<Q>)` = `csqrt`
  (libstdc++'s `__complex_sqrt` spelled out, as in the harness); the outer `std::abs` is `absK` = identity here, which is exact because
  `<x,x>` has imaginary part `0` and non-negative real part, for which `csqrt` returns `(u, 0)` with `u ≥ 0` and `cabs (u, 0) = u`.
-/
namespace Amgcl.Driver.SolversC
open Amgcl Amgcl.Driver Amgcl.Solver Amgcl.Driver.Primitives2 Amgcl.Driver.DirectC

def ofReal (r : Rat) : CRat := ⟨r, 0⟩

/-- libstdc++ `std::__complex_sqrt` at `T = Q` (harness/h_cplx_exact.cpp) -/
def csqrt (z : CRat) : CRat :=
  let x := z.re
  let y := z.im
  if x == 0 then
    let t := rsqrt (absRat y / 2)
    ⟨t, if y < 0 then -t else t⟩
  else
    let t := rsqrt (2 * (cabs z + absRat x))
    let u := t / 2
    if x > 0 then ⟨u, y / t⟩ else ⟨absRat y / t, if y < 0 then -u else u⟩

/-- `sqrt(math::norm(z))` of cg / bicgstab / richardson -/
def sqrtNorm (z : CRat) : CRat := ofReal (rsqrt (cabs z))

/-- `math::norm` of a complex scalar as a `scalar_type` value -/
def absC (z : CRat) : CRat := ofReal (cabs z)

/-- the value-type dependent scalar operations of detail/qr.hpp and bicgstabl.hpp at `std::complex<Q>` -/
def cplxOps : CplxOps CRat :=
  { conj := cconj, absC := absC, re := fun z => ofReal z.re, ltR := fun a b => decide (a.re < b.re),
    sqrtR := fun z => ofReal (rsqrt z.re) }

def cip : Vec CRat → Vec CRat → CRat := innerProductSerial cconj

def machEpsC : CRat := ofReal Solvers.machEps

inductive PrecC where
  | id
  | diag (d : Vec CRat)
  | mat (M : CRS CRat)

def PrecC.apply : PrecC → Vec CRat → Vec CRat
  | .id, v => vcopy v
  | .diag d, v => vmul 1 d v 0 #[]
  | .mat M, v => spmv 1 M v 0 #[]

def PrecC.okFor (n : Nat) : PrecC → Bool
  | .id => true
  | .diag d => d.size == n
  | .mat M => M.wfb && M.nrows == n && M.ncols == n

def pPrecC : P PrecC := do
  let t ← tok
  match t with
  | "id" => pure .id
  | "diag" => do let d ← pCVec; pure (.diag d)
  | "mat" => do let M ← pCCRS; pure (.mat M)
  | _ => fail

structure CallC where
  A : CRS CRat
  prec : PrecC
  f : Vec CRat
  x0 : Vec CRat

def pCallC : P CallC := do
  let A ← pCCRS; let pr ← pPrecC; let f ← pCVec; let x0 ← pCVec
  pure ⟨A, pr, f, x0⟩

def CallC.ok (c : CallC) : Bool :=
  c.A.wfb && decide (1 ≤ c.A.nrows) && c.A.nrows == c.A.ncols && c.f.size == c.A.nrows && c.x0.size == c.A.nrows
    && c.prec.okFor c.A.nrows

def CallC.toModel (c : CallC) : Solver.Call CRat := ⟨c.A, c.prec.apply, c.f, c.x0⟩

/-- a non-negative real rational -/
def pNonneg : P Rat := do
  let q ← pRat
  if q < 0 then fail else pure q

def pCommonC : P (Solver.Params CRat) := do
  let maxiter ← pNat; let tol ← pNonneg; let abstol ← pNonneg
  pure { maxiter := maxiter, tol := ofReal tol, abstol := ofReal abstol, nsSearch := false }

def showObsC (o : Except Err (Nat × CRat) × Vec CRat) : String :=
  match o.1 with
  | .ok (it, res) =>
    -- the reported residual is a real number; a non-zero imaginary part would be a modelling error and is made visible
    joinSp ["ok", toString it, if res.im == 0 then showRat res.re else showC res, showCVec o.2]
  | .error e => joinSp [e.token, showCVec o.2]

def solveOpC {α W} (pp : P α) (okp : α → Bool) (step : α → W → Solver.Call CRat → Obs CRat × W) (fresh : α → Nat → W)
    (args : List String) : Option String :=
  withArgs (do let p ← pp; let c ← pCallC; pure (p, c)) args
    fun (p, c) => if okp p && c.ok then showObsC (step p (fresh p c.A.nrows) c.toModel).1 else badInput

def handle (op : String) (args : List String) : Option String :=
  match op with
  | "cxs_cg" => solveOpC pCommonC (fun _ => true) (fun p => CG.call p cip sqrtNorm machEpsC) (fun _ n => CG.Work.fresh n) args
  | "cxs_bicgstab" =>
    solveOpC (do let side ← Solvers.pSide; let c ← pCommonC
                 pure ({ c with pside := side, checkAfter := false } : BiCGStab.Params CRat))
      (fun _ => true) (fun p => BiCGStab.call p cip sqrtNorm machEpsC) (fun _ n => BiCGStab.Work.fresh n) args
  | "cxs_richardson" =>
    solveOpC (do let w ← pNonneg; let c ← pCommonC; pure ({ c with damping := ofReal w } : Richardson.Params CRat))
      (fun _ => true) (fun p => Richardson.call p cip sqrtNorm machEpsC) (fun _ n => Richardson.Work.fresh n) args
  | "cxs_gmres" =>
    solveOpC (do let side ← Solvers.pSide; let M ← pNat; let c ← pCommonC
                 pure ({ c with M := M, pside := side } : GMRES.Params CRat))
      (fun p => decide (1 ≤ p.M)) (fun p => GMRES.callC cconj p cip csqrt machEpsC) (fun _ n => GMRES.Work.fresh n) args
  | "cxs_fgmres" =>
    solveOpC (do let M ← pNat; let c ← pCommonC; pure ({ c with M := M } : FGMRES.Params CRat))
      (fun p => decide (1 ≤ p.M)) (fun p => FGMRES.callC cconj p cip csqrt machEpsC) (fun _ n => FGMRES.Work.fresh n) args
  | "cxs_lgmres" =>
    solveOpC (do let side ← Solvers.pSide; let M ← pNat; let K ← pNat; let c ← pCommonC
                 pure ({ c with M := M, K' := K, alwaysReset := true, pside := side } : LGMRES.Params CRat))
      (fun p => decide (1 ≤ p.M)) (fun p => LGMRES.callC cconj p cip csqrt machEpsC) (fun _ n => LGMRES.Work.fresh n) args
  | "cxs_bicgstabl" =>
    solveOpC (do let side ← Solvers.pSide; let L ← pNat; let delta ← pNonneg; let cv ← Solvers.pBool; let c ← pCommonC
                 pure ({ c with L := L, delta := ofReal delta, convex := cv, pside := side } : BiCGStabL.Params CRat))
      (fun p => decide (1 ≤ p.L)) (fun p => BiCGStabL.callC cplxOps p cip sqrtNorm machEpsC (ofReal Solvers2.c07))
      (fun _ n => BiCGStabL.Work.fresh n) args
  | "cxs_idrs" =>
    withArgs (do let s ← pNat; let om ← pNonneg; let sm ← Solvers.pBool; let rp ← Solvers.pBool; let c ← pCommonC
                 let call ← pCallC; let raw ← pMany s pVec
                 pure (({ c with s := s, omega := ofReal om, smoothing := sm, replacement := rp } : IDRs.Params CRat), call, raw)) args
      fun (p, c, raw) =>
        if decide (1 ≤ p.s) && c.ok && decide (p.s ≤ c.A.nrows) && raw.all (fun v => v.size == c.A.nrows) then
          let rawC : List (Vec CRat) := raw.map (fun v => v.map (fun x => (⟨x, x⟩ : CRat)))
          let Pv := IDRs.makeP cip csqrt p.s ⟨fun i => rawC.getD i #[]⟩
          showObsC (IDRs.callC absC p cip csqrt machEpsC Pv (IDRs.Work.fresh c.A.nrows) c.toModel).1
        else badInput
  | _ => none

end Amgcl.Driver.SolversC
