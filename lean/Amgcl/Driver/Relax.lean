import Amgcl.Driver.Util
import Amgcl.Model.RelaxJacobi
import Amgcl.Model.RelaxGS
import Amgcl.Model.RelaxCheb
import Amgcl.Model.RelaxIlu
import Amgcl.Model.RelaxIluk
import Amgcl.Model.RelaxCheck
/-!
Handlers for the relaxation models (C06).  Every sweep op takes `… A f x tmp` and answers `x' tmp'`
(two vectors); `*_apply` ops take `… A f` and answer `x'`.

    relax_jacobi_pre|post ω A f x tmp        relax_jacobi_apply ω A f
    relax_spai0_pre|post A f x tmp           relax_spai0_apply A f          relax_spai0_m A
    relax_gs_pre|post A f x tmp              relax_gs_apply A f
    relax_cheb_pre|post deg hi lo scale A f x tmp     relax_cheb_apply deg hi lo scale A f
    relax_cheb_twice deg hi lo scale A f x g           (two `apply_pre` on the same object: members p,r persist)
    relax_cheb_cd hi lo scale A                         (the ellipse `c d`)
    relax_ilu0_pre|post ω A f x tmp          relax_ilu0_apply A f           relax_ilu0_factors A
    relax_iluk_pre|post k ω A f x tmp        relax_iluk_apply k A f         relax_iluk_factors k A
    relax_ilup_factors k A                    (ILU(0) of `A` padded with zeros to the pattern of `A^(k+1)`)
    relax_ilu_solve L U D b                   (serial_solve on given factors)
    relax_lu_check kind k A L U D            (`LUOnPattern` etc. on the implementation's factors; 4th flag: the model of
                                              the algorithm as written predicts exactly these factors)
    relax_spai1_check A M                     (V-grade: `LeastSquaresRows` on the implementation's `M`)
-/
namespace Amgcl.Driver.Relax
open Amgcl Amgcl.Driver Amgcl.Relax

def pBool : P Bool := do
  let n ← pNat
  if n = 0 then pure false else if n = 1 then pure true else fail

def square (A : CRS Rat) : Bool := A.wfb && A.ncols == A.nrows

def show2 (r : Vec Rat × Vec Rat) : String := showVec r.1 ++ " " ++ showVec r.2

def pSweepArgs : P (CRS Rat × Vec Rat × Vec Rat × Vec Rat) := do
  let A ← pCRS; let f ← pVec; let x ← pVec; let t ← pVec; pure (A, f, x, t)

def sweepOk (A : CRS Rat) (f x t : Vec Rat) : Bool :=
  square A && f.size == A.nrows && x.size == A.nrows && t.size == A.nrows

def pChebPrm : P (ChebParams Rat) := do
  let deg ← pNat; let hi ← pRat; let lo ← pRat; let sc ← pBool
  pure { degree := deg, higher := hi, lower := lo, scale := sc }

def rabs : Rat → Rat := Amgcl.absK

def outcome {S : Type} (o : SetupOutcome S) (k : S → String) : String :=
  match o with
  | .ok s => k s
  | .precondition => "precondition"
  | .undefinedInput => badInput

def showFactors (F : IluFactors Rat) : String :=
  showCRS F.L ++ " " ++ showCRS F.U ++ " " ++ showVec F.D

/-- factors as they can be observed through `apply`: explicit zeros dropped; `singular` when a stored pivot is `0` -/
def showObservable (F : IluFactors Rat) : String :=
  if F.D.any (· == 0) then "singular" else showFactors F.dropZeros

/-- does the model of the algorithm as written produce exactly the given (observable) factors? -/
def asIs (kind : String) (k : Nat) (A : CRS Rat) (F : IluFactors Rat) : String :=
  let cmp (o : SetupOutcome (IluFactors Rat)) : String :=
    match o with
    | .ok G => showBool (showFactors G.dropZeros == showFactors F)
    | _ => "0"
  if kind = "ilu0" then cmp (ilu0Factor A)
  else if kind = "iluk" then cmp (ilukFactor k A)
  else if kind = "ilup" then cmp (ilupFactor k A)
  else "-"

def handle (op : String) (args : List String) : Option String :=
  match op with
  | "relax_jacobi_pre" | "relax_jacobi_post" =>
    withArgs (do let w ← pRat; let a ← pSweepArgs; pure (w, a)) args fun (w, A, f, x, t) =>
      if sweepOk A f x t then
        let sm := jacobi w
        outcome (sm.setup A) fun s => show2 (if op == "relax_jacobi_pre" then sm.applyPre s A f x t else sm.applyPost s A f x t)
      else badInput
  | "relax_jacobi_apply" =>
    withArgs (do let w ← pRat; let A ← pCRS; let f ← pVec; pure (w, A, f)) args fun (w, A, f) =>
      if square A && f.size == A.nrows then
        let sm := jacobi w
        outcome (sm.setup A) fun s => showVec (sm.apply s A f)
      else badInput
  | "relax_spai0_pre" | "relax_spai0_post" =>
    withArgs pSweepArgs args fun (A, f, x, t) =>
      if sweepOk A f x t then
        let sm := spai0 rabs
        outcome (sm.setup A) fun s => show2 (if op == "relax_spai0_pre" then sm.applyPre s A f x t else sm.applyPost s A f x t)
      else badInput
  | "relax_spai0_apply" =>
    withArgs (do let A ← pCRS; let f ← pVec; pure (A, f)) args fun (A, f) =>
      if square A && f.size == A.nrows then
        let sm := spai0 rabs
        outcome (sm.setup A) fun s => showVec (sm.apply s A f)
      else badInput
  | "relax_spai0_m" =>
    withArgs pCRS args fun A => if square A then showVec (spai0Diag rabs A) else badInput
  | "relax_gs_pre" | "relax_gs_post" =>
    withArgs pSweepArgs args fun (A, f, x, t) =>
      if sweepOk A f x t then
        let sm : Smoother Rat Unit := gaussSeidel
        show2 (if op == "relax_gs_pre" then sm.applyPre () A f x t else sm.applyPost () A f x t)
      else badInput
  | "relax_gs_apply" =>
    withArgs (do let A ← pCRS; let f ← pVec; pure (A, f)) args fun (A, f) =>
      if square A && f.size == A.nrows then showVec ((gaussSeidel : Smoother Rat Unit).apply () A f) else badInput
  | "relax_cheb_pre" | "relax_cheb_post" =>
    withArgs (do let p ← pChebPrm; let a ← pSweepArgs; pure (p, a)) args fun (p, A, f, x, t) =>
      if sweepOk A f x t then
        let sm := chebyshev p
        outcome (sm.setup A) fun s => show2 (if op == "relax_cheb_pre" then sm.applyPre s A f x t else sm.applyPost s A f x t)
      else badInput
  | "relax_cheb_apply" =>
    withArgs (do let p ← pChebPrm; let A ← pCRS; let f ← pVec; pure (p, A, f)) args fun (p, A, f) =>
      if square A && f.size == A.nrows then
        let sm := chebyshev p
        outcome (sm.setup A) fun s => showVec (sm.apply s A f)
      else badInput
  | "relax_cheb_twice" =>
    withArgs (do let p ← pChebPrm; let A ← pCRS; let f ← pVec; let x ← pVec; let g ← pVec; pure (p, A, f, x, g)) args
      fun (p, A, f, x, g) =>
      if sweepOk A f x g then
        let sm := chebyshev p
        outcome (sm.setup A) fun s =>
          let r1 := chebSolve s A f x s.p s.r
          let r2 := chebSolve s A g r1.1 r1.2.1 r1.2.2
          showVec r2.1
      else badInput
  | "relax_cheb_cd" =>
    withArgs (do let hi ← pRat; let lo ← pRat; let sc ← pBool; let A ← pCRS; pure (hi, lo, sc, A)) args
      fun (hi, lo, sc, A) =>
      if square A then
        let sm := chebyshev { degree := 0, higher := hi, lower := lo, scale := sc }
        outcome (sm.setup A) fun s => showRat s.c ++ " " ++ showRat s.d
      else badInput
  | "relax_ilu0_pre" | "relax_ilu0_post" =>
    withArgs (do let w ← pRat; let a ← pSweepArgs; pure (w, a)) args fun (w, A, f, x, t) =>
      if sweepOk A f x t && A.sortedb then
        let sm := ilu0 w
        outcome (sm.setup A) fun s => show2 (if op == "relax_ilu0_pre" then sm.applyPre s A f x t else sm.applyPost s A f x t)
      else badInput
  | "relax_ilu0_apply" =>
    withArgs (do let A ← pCRS; let f ← pVec; pure (A, f)) args fun (A, f) =>
      if square A && f.size == A.nrows && A.sortedb then
        let sm := ilu0 (1 : Rat)
        outcome (sm.setup A) fun s => showVec (sm.apply s A f)
      else badInput
  | "relax_ilu0_factors" =>
    withArgs pCRS args fun A =>
      if square A && A.sortedb then outcome (ilu0Factor A) showFactors else badInput
  | "relax_iluk_pre" | "relax_iluk_post" =>
    withArgs (do let k ← pNat; let w ← pRat; let a ← pSweepArgs; pure (k, w, a)) args fun (k, w, A, f, x, t) =>
      if sweepOk A f x t && A.sortedb && hasDiagb A then
        let sm := iluk k w
        outcome (sm.setup A) fun s => show2 (if op == "relax_iluk_pre" then sm.applyPre s A f x t else sm.applyPost s A f x t)
      else badInput
  | "relax_iluk_apply" =>
    withArgs (do let k ← pNat; let A ← pCRS; let f ← pVec; pure (k, A, f)) args fun (k, A, f) =>
      if square A && f.size == A.nrows && A.sortedb && hasDiagb A then
        let sm := iluk k (1 : Rat)
        outcome (sm.setup A) fun s => showVec (sm.apply s A f)
      else badInput
  | "relax_iluk_factors" =>
    withArgs (do let k ← pNat; let A ← pCRS; pure (k, A)) args fun (k, A) =>
      if square A && A.sortedb && hasDiagb A then outcome (ilukFactor k A) showObservable else badInput
  | "relax_ilup_factors" =>
    withArgs (do let k ← pNat; let A ← pCRS; pure (k, A)) args fun (k, A) =>
      if square A && A.sortedb && hasDiagb A then outcome (ilupFactor k A) showObservable else badInput
  | "relax_ilu_solve" =>
    withArgs (do let L ← pCRS; let U ← pCRS; let D ← pVec; let b ← pVec; pure (L, U, D, b)) args fun (L, U, D, b) =>
      if square L && square U && L.nrows == U.nrows && D.size == L.nrows && b.size == L.nrows
          && strictLowerb L && strictUpperb U then
        showVec (iluSolve { L := L, U := U, D := D } b)
      else badInput
  | "relax_lu_check" =>
    withArgs (do let kind ← tok; let k ← pNat; let A ← pCRS; let L ← pCRS; let U ← pCRS; let D ← pVec
                 pure (kind, k, A, L, U, D)) args fun (kind, k, A, L, U, D) =>
      if square A && square L && square U && L.nrows == A.nrows && U.nrows == A.nrows && D.size == A.nrows
          && strictLowerb L && strictUpperb U then
        match admPattern kind k A with
        | some adm =>
          let F : IluFactors Rat := { L := L, U := U, D := D }
          joinSp [showBool (luOnPatternb adm.1 A F), showBool (factorsInPatternb adm.2 F), showBool (luExactb A F),
                  asIs kind k A F]
        | none => badInput
      else badInput
  | "relax_spai1_check" =>
    withArgs (do let A ← pCRS; let M ← pCRS; pure (A, M)) args fun (A, M) =>
      if square A && square M && M.nrows == A.nrows then
        joinSp [showBool (samePatternb A M), showBool (leastSquaresRowsb A M),
                showBool (leastSquaresRowsTolb (Rat.divInt 1 (2 ^ 16 : Nat)) A M)]
      else badInput
  | _ => none

end Amgcl.Driver.Relax
