import Amgcl.Driver.Util
import Amgcl.Model.Kernels
import Amgcl.Model.KernelsCopy
/-! handlers for the C08 sparse kernels; a product/sum result is printed as `<ptr of the first pass> <CRS of the second pass>` -/
namespace Amgcl.Driver.Kernels
open Amgcl Amgcl.Driver

def pBool : P Bool := do
  let n ← pNat
  if n = 0 then pure false else if n = 1 then pure true else fail

def showPtrCRS (ws : List Nat) (C : CRS Rat) : String :=
  showNatVec (scanWidths ws).toArray ++ " " ++ showCRS C

def showOptVec (v : Array (Option Rat)) : String :=
  showVecOf (fun o => match o with | none => "U" | some q => showRat q) v

def handle (op : String) (args : List String) : Option String :=
  match op with
  | "k_transpose" => withArgs pCRS args fun A => if A.wfb then showCRS (transpose id A) else badInput
  | "k_saad" => withArgs (do let A ← pCRS; let B ← pCRS; let s ← pBool; pure (A, B, s)) args
      fun (A, B, s) => if A.wfb && B.wfb && A.ncols == B.nrows then showPtrCRS (saadWidths A B) (spgemmSaad A B s) else badInput
  | "k_rmerge" => withArgs (do let A ← pCRS; let B ← pCRS; pure (A, B)) args
      fun (A, B) => if A.wfb && B.wfb && A.ncols == B.nrows && B.sortedb then showPtrCRS (rmergeWidths A B) (spgemmRmerge A B) else badInput
  | "k_product" => withArgs (do let nt ← pNat; let A ← pCRS; let B ← pCRS; let s ← pBool; pure (nt, A, B, s)) args
      fun (nt, A, B, s) =>
        if A.wfb && B.wfb && A.ncols == B.nrows && nt ≥ 1 && (nt ≤ 16 || B.sortedb) then showCRS (product nt A B s) else badInput
  | "k_sum" => withArgs (do let a ← pRat; let A ← pCRS; let b ← pRat; let B ← pCRS; let s ← pBool; pure (a, A, b, B, s)) args
      fun (a, A, b, B, s) =>
        if !(A.wfb && B.wfb) then badInput
        else if A.ncols == B.ncols && A.nrows == B.nrows then showPtrCRS (sumWidths A B) (sum a A b B s) else "precondition"
  | "k_scale" => withArgs (do let A ← pCRS; let s ← pRat; pure (A, s)) args fun (A, s) => showCRS (scale A s)
  | "k_sort" => withArgs pCRS args fun A => showCRS (sortRows A)
  | "k_diag" => withArgs (do let A ← pCRS; let inv ← pBool; pure (A, inv)) args
      fun (A, inv) => if A.wfb then showOptVec (diagonal A inv) else badInput
  | "k_gersh" => withArgs (do let sc ← pBool; let A ← pCRS; pure (sc, A)) args
      fun (sc, A) => if A.wfb && A.nrows == A.ncols then showRat (gershgorin sc A) else badInput
  | "k_crs_copy" => withArgs (do let kind ← pNat; let A ← pCRS; pure (kind, A)) args
      fun (kind, A) =>
        if A.wfb && kind ≤ 3 && (kind != 3 || A.nrows == A.ncols) then
          showPtrCRS ((crsCopy A).rows.toList.map List.length) (crsCopy A) else badInput
  | "k_power" => withArgs (do let sc ← pBool; let it ← pNat; let A ← pCRS; pure (sc, it, A)) args
      fun (sc, it, A) =>
        -- the power-method branch is not modelled (thread-seeded random start vector): the implementation-side
        -- oracle decides; the model only agrees on which inputs are admissible
        if A.wfb && A.nrows == A.ncols && it ≥ 1 &&
           (!sc || (List.range A.nrows).all (fun i => ((A.row i).filter (fun cv => cv.1 == i && cv.2 != 0)).length == 1))
        then "power-ok" else badInput
  | _ => none

end Amgcl.Driver.Kernels
