import Amgcl.Driver.Util
import Amgcl.Driver.Primitives2
import Amgcl.Driver.Primitives3
import Amgcl.Model.Primitives
import Amgcl.Model.EigenVT
/-!
C07 / C17, Eigen at complex and block values (carrier `CRat` of `Driver/Primitives2.lean`; complex numbers are `re im`):

  eigc_spmv a A x b y | eigc_residual f A x | eigc_axpby a x b y | eigc_axpbypcz a x b y c z | eigc_vmul a x y b z
  eigc_inner_product x y | eigc_copy_clear x            backend::eigen<std::complex<double>> on Gaussian integers
  eig_copy A x                                          eigen<double>::copy_matrix / copy_vector / create_vector, then A*x
  evt_ops cx b X Y v w c                                value_type/eigen.hpp at Eigen::Matrix<T,b,b> (cx = 1: T complex):
      -> adjoint X | X*Y | X*v | <v,w> | <X,Y> | norm X or `irr` | zero | is_zero X, is_zero 0 | identity | constant c
         | inverse X or `noninv` | X < Y (cx = 0 only; `-` otherwise)
  mxp_spmv b pm pv ct a A x beta y | mxp_residual b pm pv ct f A x | mxp_vmul b pm pv ct a X y beta z
      the mixed scalar/block overloads with a block matrix of precision pm and FLAT scalar vectors of precision pv in
      container ct: the SAME model functions as `mx_spmv` / `mx_residual` / `mx_vmul` (`Driver/Primitives3.lean`,
      `Model/BlockValue.lean`) — the result does not depend on the precisions or the container; b = 2..4
-/
namespace Amgcl.Driver.Primitives4
open Amgcl Amgcl.Driver Amgcl.Driver.Primitives2

def cinv (a : CRat) : CRat := let d := a.re * a.re + a.im * a.im; ⟨a.re / d, -a.im / d⟩
def isInt (a : CRat) : Bool := a.re.den == 1 && a.im.den == 1
def bar : String := "|"
def showCArr (v : Array CRat) : String := joinSp (v.toList.map showC)

def evtOps (cx b : Nat) (X Y v w : Array CRat) (c : CRat) : String :=
  let adj := EigenVT.adjoint cconj b b X
  let xy := EigenVT.mul b b b X Y
  let xv := EigenVT.mul b b 1 X v
  let ipv := EigenVT.innerProduct cconj b 1 v w
  let ipm := EigenVT.innerProduct cconj b b X Y
  let ns := (EigenVT.normSq cconj X).re
  let nrm := if ns.den == 1 && ns.num ≥ 0 && (Nat.sqrt ns.num.toNat) * (Nat.sqrt ns.num.toNat) == ns.num.toNat
             then toString (Nat.sqrt ns.num.toNat) else "irr"
  let z : Array CRat := EigenVT.zero b b
  let inv := match EigenVT.inverse cinv b X with
    | some I => if I.toList.all isInt then showCArr I else "noninv"
    | none => "noninv"
  let lt := if cx == 0 then showBool (decide ((EigenVT.trace b X).re < (EigenVT.trace b Y).re)) else "-"
  joinSp [showCArr adj, bar, showCArr xy, bar, showCArr xv, bar, showCArr ipv, bar, showCArr ipm, bar, nrm, bar,
          showCArr z, bar, showBool (EigenVT.isZero X), showBool (EigenVT.isZero z), bar,
          showCArr (EigenVT.identity b), bar, showCArr (EigenVT.constant b b (⟨c.re, 0⟩ : CRat)), bar, inv, bar, lt]

def handle (op : String) (args : List String) : Option String :=
  match op with
  | "eigc_spmv" => withArgs (do let a ← pC; let A ← pCCRS; let x ← pCVec; let b ← pC; let y ← pCVec; pure (a, A, x, b, y)) args
      fun (a, A, x, b, y) => if A.wfb && x.size == A.ncols && y.size == A.nrows then showCVec (spmv a A x b y) else badInput
  | "eigc_residual" => withArgs (do let f ← pCVec; let A ← pCCRS; let x ← pCVec; pure (f, A, x)) args
      fun (f, A, x) => if A.wfb && x.size == A.ncols && f.size == A.nrows then showCVec (residual f A x) else badInput
  | "eigc_axpby" => withArgs (do let a ← pC; let x ← pCVec; let b ← pC; let y ← pCVec; pure (a, x, b, y)) args
      fun (a, x, b, y) => if x.size == y.size then showCVec (axpby a x b y) else badInput
  | "eigc_axpbypcz" => withArgs (do let a ← pC; let x ← pCVec; let b ← pC; let y ← pCVec; let c ← pC; let z ← pCVec; pure (a, x, b, y, c, z)) args
      fun (a, x, b, y, c, z) => if x.size == y.size && x.size == z.size then showCVec (axpbypcz a x b y c z) else badInput
  | "eigc_vmul" => withArgs (do let a ← pC; let x ← pCVec; let y ← pCVec; let b ← pC; let z ← pCVec; pure (a, x, y, b, z)) args
      fun (a, x, y, b, z) => if x.size == y.size && x.size == z.size then showCVec (vmul a x y b z) else badInput
  | "eigc_inner_product" => withArgs (do let x ← pCVec; let y ← pCVec; pure (x, y)) args
      fun (x, y) => if x.size == y.size then showC (EigenVT.backendInnerProduct cconj x y) else badInput
  | "eigc_copy_clear" => withArgs pCVec args fun x => joinSp [showCVec (vcopy x), bar, showCVec (vclear (K := CRat) x.size)]
  | "eig_copy" => withArgs (do let A ← pCRS; let x ← pVec; pure (A, x)) args
      fun (A, x) => if A.wfb && x.size == A.ncols then showVec (spmv 1 A x 0 (vclear A.nrows)) else badInput
  | "evt_ops" => withArgs (do let cx ← pNat; let b ← pNat; let X ← pCVec; let Y ← pCVec; let v ← pCVec; let w ← pCVec; let c ← pC
                              pure (cx, b, X, Y, v, w, c)) args
      fun (cx, b, X, Y, v, w, c) =>
        let real := fun (a : Array CRat) => a.toList.all (fun z => z.im == 0)
        if !(cx ≤ 1 && 2 ≤ b && b ≤ 4 && X.size == b * b && Y.size == b * b && v.size == b && w.size == b) then badInput
        else if cx == 0 && !(real X && real Y && real v && real w && c.im == 0) then badInput
        else if !((X ++ Y ++ v ++ w ++ #[c]).toList.all isInt) then badInput
        else evtOps cx b X Y v w c
  | "mxp_spmv" | "mxp_residual" | "mxp_vmul" =>
    match args with
    | tb :: tpm :: tpv :: tct :: rest =>
      match tb.toNat?, tpm.toNat?, tpv.toNat?, tct.toNat? with
      | some b, some pm, some pv, some ct =>
        if !(2 ≤ b && b ≤ 4 && pm ≤ 1 && pv ≤ 1 && ct ≤ 1) then some badInput
        else if op == "mxp_spmv" then
          -- non-empty block matrix dimensions, as in the harness
          some (match rest with
            | _ :: n :: m :: _ => if n == "0" || m == "0" then badInput else Primitives3.mxSpmv b ("0" :: "0" :: "0" :: rest)
            | _ => badInput)
        else if op == "mxp_residual" then some (Primitives3.mxResidual b ("0" :: "0" :: "0" :: "0" :: rest))
        else some (Primitives3.mxVmul b ("0" :: "0" :: rest))
      | _, _, _, _ => some badInput
    | _ => some badInput
  | _ => none

end Amgcl.Driver.Primitives4
