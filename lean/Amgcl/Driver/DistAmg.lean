import Amgcl.Driver.Dist
import Amgcl.Driver.AmgApply
import Amgcl.Model.DistAmg
/-!
handler for the distributed multigrid op (C12, `harness/h_mpi_cycle.cpp`):

  distamg_cycle kind w npre npost ncycle pre_cycles direct mode L (part)^L A (P R)^(L-1) rhs x

`mpi::amg` is built (`DistAmg.dinit`) on the distribution of `A` by `part₀` with a coarsening that hands out the given
transfer operators (`P_l`: rows by `part_l`, columns by `part_{l+1}`; `R_l` the other way round), Galerkin coarse
operators through the distributed product, `coarse_enough = Σ part_{L-1}`, no repartitioning;
`kind` 0 = damped_jacobi(w), 1 = spai0; `direct` = `direct_coarse`; `mode` 0: `apply(rhs, x)`, 1: `cycle(rhs, x)`
from the given `x`.  Prints the level count and the gathered `x`.  The coarse direct solve is the exact solution
(what skyline LU returns in exact arithmetic whenever it succeeds), as in `amg_apply`.
-/
namespace Amgcl.Driver.DistAmg
open Amgcl Amgcl.Driver Amgcl.Dist Amgcl.DistAmg

structure Args where
  kind : Nat
  w : Rat
  prm : Amg.Params
  mode : Nat
  parts : List (List Nat)
  A : CRS Rat
  trs : List (CRS Rat × CRS Rat)
  rhs : Vec Rat
  x : Vec Rat

def pArgs : P Args := do
  let kind ← pNat; let w ← Dist.pRat
  let npre ← pNat; let npost ← pNat; let ncycle ← pNat; let pc ← pNat
  let direct ← Dist.pBool; let mode ← pNat
  let L ← pNat
  if L = 0 || L > 4 then fail else
  let parts ← pMany L Dist.pPart
  let A ← Dist.pCRS
  let trs ← pMany (L - 1) (do let p ← Dist.pCRS; let r ← Dist.pCRS; pure (p, r))
  let rhs ← Dist.pVec; let x ← Dist.pVec
  let ce := (parts.getLast?.getD []).sum
  pure { kind, w, mode, parts, A, trs, rhs, x,
         prm := { coarse_enough := ce, direct_coarse := direct, max_levels := L + 5, npre := npre, npost := npost,
                  ncycle := ncycle, pre_cycles := pc, allow_rebuild := false } }

/-- shapes chain, sizes strictly above the last level's (so that `init` consumes exactly the given operators) -/
def argsOk (a : Args) : Bool :=
  let p0 := a.parts.headD []
  let ce := a.prm.coarse_enough
  a.kind ≤ 1 && a.mode ≤ 1 && a.parts.all (fun p => p.length == p0.length) &&
  Dist.okMat a.A p0 p0 && a.rhs.size == p0.sum && a.x.size == p0.sum &&
  (List.range a.trs.length).all (fun l =>
    let pl := a.parts.getD l []
    let pn := a.parts.getD (l + 1) []
    let pr := a.trs.getD l (⟨0, #[]⟩, ⟨0, #[]⟩)
    Dist.okMat pr.1 pl pn && Dist.okMat pr.2 pn pl && decide (pl.sum > ce))

def policy (a : Args) : DPolicy Rat := givenPolicy a.trs a.parts

def run (a : Args) (dsm : DSmoother Rat (Vec Rat)) : String :=
  let p0 := a.parts.headD []
  match dinit a.prm (policy a) dsm Amg.nonsingular (split a.A p0 p0) p0 with
  | .error e => Amg.showErr e
  | .ok ls =>
    let scr := freshDScratch ls
    let r := if a.mode = 0 then dapply a.prm dsm AmgApply.denseSolve ls scr (splitVec a.rhs p0)
             else dcycle a.prm dsm AmgApply.denseSolve ls scr (splitVec a.rhs p0) (splitVec a.x p0)
    joinSp [toString ls.length, showVec (concatVec r.1)]

def handle (op : String) (args : List String) : Option String :=
  match op with
  | "distamg_cycle" => withArgs pArgs args fun a =>
      if !argsOk a then badInput
      else if a.kind = 0 then run a (distJacobi a.w) else run a (distSpai0 AmgApply.rabs)
  | _ => none

end Amgcl.Driver.DistAmg
