// smoothed_aggr_emin: hierarchy setup is run-to-run non-deterministic in binary64 with >= 2 OpenMP threads
// (omega[ca] += v / denum[c] += v*v under `#pragma omp critical`, coarsening/smoothed_aggr_emin.hpp:247-259:
//  the ORDER of the floating point additions depends on the thread interleaving)
#include <amgcl/backend/builtin.hpp>
#include <amgcl/amg.hpp>
#include <amgcl/coarsening/smoothed_aggr_emin.hpp>
#include <amgcl/relaxation/spai0.hpp>
#include <amgcl/adapter/crs_tuple.hpp>
#include <vector>
#include <cstdio>
#include <cstring>
#include <omp.h>
int main() {
    int n = 20;
    std::vector<int> ptr = {0,3,7,11,14,18,23,28,32,36,41,46,50,54,59,64,68,71,75,79,82};
    std::vector<int> col = {0,1,4,0,1,2,5,1,2,3,6,2,3,7,0,4,5,8,1,4,5,6,9,2,5,6,7,10,3,6,7,11,4,8,9,12,5,8,9,10,13,6,9,10,11,14,7,10,11,15,8,12,13,16,9,12,13,14,17,10,13,14,15,18,11,14,15,19,12,16,17,13,16,17,18,14,17,18,19,15,18,19};
    std::vector<double> val = {7.0,-2.0,-3.0,-2.0,5.0,-1.0,-2.0,-1.0,5.5,-0.5,-2.0,-0.5,4.0,-1.5,-3.0,7.0,-2.0,-2.0,-2.0,-2.0,10.0,-4.0,-2.0,-2.0,-4.0,9.0,-2.0,-1.0,-1.5,-2.0,4.0,-0.5,-2.0,4.5,-1.5,-1.0,-2.0,-1.5,10.0,-2.0,-4.0,-1.0,-2.0,9.5,-3.0,-2.0,-0.5,-3.0,6.5,-3.0,-1.0,4.0,-2.0,-1.0,-4.0,-2.0,12.5,-3.0,-1.5,-2.0,-3.0,8.5,-0.5,-2.0,-3.0,-0.5,5.5,-2.0,-1.0,3.0,-2.0,-1.5,-2.0,6.5,-3.0,-2.0,-3.0,6.5,-1.5,-2.0,-1.5,4.5};
    typedef amgcl::backend::builtin<double> B;
    typedef amgcl::amg<B, amgcl::coarsening::smoothed_aggr_emin, amgcl::relaxation::spai0> AMG;
    AMG::params prm; prm.coarse_enough = 4; prm.max_levels = 3;
    std::vector<double> rhs(n); for (int i = 0; i < n; ++i) rhs[i] = 1 + 0.25 * (i % 5);
    for (int nt : {1, 2, 3, 4}) {
        omp_set_num_threads(nt);
        int differ = 0; std::vector<double> first;
        for (int rep = 0; rep < 200; ++rep) {
            AMG amg(std::tie(n, ptr, col, val), prm);
            std::vector<double> x(n, 0.0); amg.apply(rhs, x);
            if (rep == 0) first = x; else if (std::memcmp(first.data(), x.data(), 8 * n)) ++differ;
        }
        printf("threads=%d: %d of 199 repeated setups give an apply() result that differs bitwise from the first\n", nt, differ);
    }
}
