#include <amgcl/backend/builtin.hpp>
#include <amgcl/solver/lgmres.hpp>
#include <amgcl/preconditioner/dummy.hpp>
#include <iostream>
#include <vector>
#include <cmath>
int main() {
    typedef amgcl::backend::builtin<double> B;
    const int n = 8;
    std::vector<ptrdiff_t> ptr{0}, col; std::vector<double> val;
    for (int i = 0; i < n; ++i) { if (i) { col.push_back(i-1); val.push_back(-1); } col.push_back(i); val.push_back(2); if (i+1<n) { col.push_back(i+1); val.push_back(-1); } ptr.push_back(col.size()); }
    auto A = std::make_shared<B::matrix>(n, n, ptr, col, val);
    amgcl::preconditioner::dummy<B> P(*A);
    for (int K = 1; K <= 3; ++K) {
      amgcl::solver::lgmres<B>::params prm; prm.M = 1; prm.K = K; prm.always_reset = false; prm.maxiter = 3; prm.tol = 1e-14;
      amgcl::solver::lgmres<B> S(n, prm);
      for (int call = 0; call < 5; ++call) {
        std::vector<double> fv(n, 0.0); fv[0] = 1; 
        amgcl::backend::numa_vector<double> f(fv), x(std::vector<double>(n, 0.0));
        size_t it; double res; std::tie(it, res) = S(*A, P, f, x);
        bool nan = false; for (int i = 0; i < n; ++i) if (!std::isfinite(x[i])) nan = true;
        std::cout << "K=" << K << " call " << call << ": it=" << it << " res=" << res << (nan ? "  NaN in x" : "") << std::endl;
      }
    }
}
