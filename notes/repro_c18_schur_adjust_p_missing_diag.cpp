// C18 finding: schur_pressure_correction with adjust_p == 1 (the DEFAULT) applies a wrong matrix-free Schur
// complement when a row of Kpp has no STORED diagonal entry (e.g. unstabilised Stokes: the p-p block is empty).
//
// init() (schur_pressure_correction.hpp:441-468) computes L[i] = (Kpu dia(Kuu)^-1 Kup)_ii, subtracts it from the stored
// diagonal entry of Kpp *if there is one* (the search loop just ends otherwise) but ALWAYS keeps L[i] in Ld; spmv()
// (:262-264) then adds Ld back unconditionally.  For a row without stored diagonal the operator handed to the
// pressure solver is therefore  S + Ld  instead of  S = Kpp - Kpu Kuu^-1 Kup,  and type 1 with EXACT inner solves no
// longer returns K^-1 f.  Storing an explicit zero on the diagonal of Kpp makes the result exact again.
//
//   g++ -std=c++17 -I/repo repro_c18_schur_adjust_p_missing_diag.cpp && ./a.out
#include <iostream>
#include <vector>
#include <cmath>
#include <amgcl/backend/builtin.hpp>
#include <amgcl/preconditioner/schur_pressure_correction.hpp>

typedef amgcl::backend::builtin<double> BE;
typedef amgcl::backend::crs<double> Crs;

// exact inner solver: dense Gaussian elimination; as PSolver it solves with the matrix-free operator it is handed
struct Exact {
    typedef BE backend_type; typedef BE::matrix matrix; typedef BE::params backend_params; typedef double value_type;
    struct params {};
    std::shared_ptr<Crs> A;
    template <class M> Exact(const M &A_, const params& = params(), const backend_params& = backend_params()) : A(std::make_shared<Crs>(A_)) {}
    static std::vector<double> solve(std::vector<std::vector<double>> M, std::vector<double> b) {
        size_t n = b.size();
        for (size_t k = 0; k < n; ++k) {
            size_t p = k; for (size_t i = k; i < n; ++i) if (std::abs(M[i][k]) > std::abs(M[p][k])) p = i;
            std::swap(M[p], M[k]); std::swap(b[p], b[k]);
            for (size_t i = k + 1; i < n; ++i) { double f = M[i][k] / M[k][k]; for (size_t j = k; j < n; ++j) M[i][j] -= f * M[k][j]; b[i] -= f * b[k]; }
        }
        for (size_t i = n; i-- > 0; ) { for (size_t j = i + 1; j < n; ++j) b[i] -= M[i][j] * b[j]; b[i] /= M[i][i]; }
        return b;
    }
    template <class V1, class V2> std::tuple<size_t,double> operator()(const V1 &rhs, V2 &&x) const {          // U: Kuu u = rhs
        size_t n = A->nrows; std::vector<std::vector<double>> M(n, std::vector<double>(n)); std::vector<double> b(n);
        for (size_t i = 0; i < n; ++i) { b[i] = rhs[i]; for (auto j = A->ptr[i]; j < A->ptr[i+1]; ++j) M[i][A->col[j]] += A->val[j]; }
        auto s = solve(M, b); for (size_t i = 0; i < n; ++i) x[i] = s[i]; return std::make_tuple(size_t(1), 0.0);
    }
    template <class Op, class V1, class V2> std::tuple<size_t,double> operator()(const Op &S, const V1 &rhs, V2 &&x) const {   // P: S p = rhs, S matrix-free
        size_t n = A->nrows; std::vector<std::vector<double>> M(n, std::vector<double>(n)); std::vector<double> b(n);
        for (size_t j = 0; j < n; ++j) { amgcl::backend::numa_vector<double> e(n), y(n); for (size_t i = 0; i < n; ++i) { e[i] = (i == j); y[i] = 0; }
            amgcl::backend::spmv(1.0, S, e, 0.0, y); for (size_t i = 0; i < n; ++i) M[i][j] = y[i]; }
        for (size_t i = 0; i < n; ++i) b[i] = rhs[i];
        auto s = solve(M, b); for (size_t i = 0; i < n; ++i) x[i] = s[i]; return std::make_tuple(size_t(1), 0.0);
    }
    const matrix& system_matrix() const { return *A; }
};

static double run(bool explicit_zero, int adjust_p) {
    // K = [ 2 1 | 1 ]      u = {0,1}, p = {2};   Kpp = (0): stored explicitly or not stored at all
    //     [ 1 3 | 0 ]
    //     [ 1 0 | 0 ]
    std::vector<ptrdiff_t> ptr = {0, 3, 5, 6}, col = {0, 1, 2, 0, 1, 0}; std::vector<double> val = {2, 1, 1, 1, 3, 1};
    if (explicit_zero) { ptr[3] = 7; col.push_back(2); val.push_back(0.0); }
    Crs K(3, 3, ptr, col, val);
    typedef amgcl::preconditioner::schur_pressure_correction<Exact, Exact> SPC;
    SPC::params prm; prm.pmask = {0, 0, 1}; prm.type = 1; prm.adjust_p = adjust_p;
    SPC P(K, prm);
    amgcl::backend::numa_vector<double> f(3), x(3), r(3); f[0] = 1; f[1] = 2; f[2] = 3;
    P.apply(f, x);
    amgcl::backend::residual(f, K, x, r);
    return std::sqrt(r[0]*r[0] + r[1]*r[1] + r[2]*r[2]);
}
int main() {
    std::cout << "adjust_p=1, Kpp diagonal not stored : |f - K x| = " << run(false, 1) << "   <-- should be 0 (exact inner solves)\n";
    std::cout << "adjust_p=1, explicit zero stored    : |f - K x| = " << run(true, 1) << "\n";
    std::cout << "adjust_p=0, Kpp diagonal not stored : |f - K x| = " << run(false, 0) << "\n";
    std::cout << "adjust_p=2, Kpp diagonal not stored : |f - K x| = " << run(false, 2) << "\n";
    return 0;
}
