// Observation (work package rs): ruge_stuben::cfsplit indexes its bucket array `ptr` (size n+1) with lambda[i]+1,
// and lambda[i] counts the stored entries of column i that are strong.  If a row stores the same column twice
// (duplicate entries - amg sorts rows but does not merge duplicates) lambda[i] can reach n and `++ptr[lambda[i]+1]`
// writes behind the vector.  The Lean theorems (C04b.transfer_all_decided, RS.lambdaInit_lt) therefore carry the
// hypothesis RS.Input.nodup.  Whether a CRS matrix with duplicate entries is "valid input" is not stated by amgcl.
// Build:  g++ -std=c++17 -g -fsanitize=address -I/repo notes/repro_rs_duplicates.cpp -o /tmp/repro && /tmp/repro
//         -> AddressSanitizer: heap-buffer-overflow in ruge_stuben<...>::cfsplit, ruge_stuben.hpp:351 (`++ptr[lambda[i] + 1]`)
#include <vector>
#include <tuple>
#include <iostream>
#include <amgcl/backend/builtin.hpp>
#include <amgcl/coarsening/ruge_stuben.hpp>
int main() {
    typedef amgcl::backend::builtin<double> B;
    // 2x2:  row 0: (0, 2)      row 1: (0,-1) (0,-1) (1, 2)      i.e. a_10 = -2 stored as two entries
    std::vector<ptrdiff_t> ptr = {0, 1, 4}, col = {0, 0, 0, 1};
    std::vector<double> val = {2, -1, -1, 2};
    amgcl::backend::crs<double> A(2, 2, ptr, col, val);
    amgcl::coarsening::ruge_stuben<B> rs;
    auto PR = rs.transfer_operators(A);
    std::cout << "P has " << std::get<0>(PR)->ncols << " columns\n";
    return 0;
}
