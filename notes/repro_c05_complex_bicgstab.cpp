// Reproducer (C05, complex systems): amgcl/solver/bicgstab.hpp uses amgcl's sesquilinear inner product
// inner_product(x, y) = sum x_i conj(y_i) = y^H x with inconsistent argument order:
//     rho1  = inner_product(*r, *rh)                          = rh^H r          (textbook)
//     alpha = rho1 / inner_product(*rh, *v)                   = rho1 / conj(rh^H v)   -- textbook: rho1 / (rh^H v)
//     omega = inner_product(*t, *s) / inner_product(*t, *t)   = conj(t^H s) / t^H t   -- textbook: (t^H s) / (t^H t)
// For complex non-Hermitian systems alpha no longer makes s = r - alpha v orthogonal to the shadow residual rh
// (bi-orthogonality lost: no finite termination, erratic convergence) and omega is the complex conjugate of the
// minimal-residual step length.  Real value types are not affected.
//
//   g++ -std=c++17 -I<amgcl> notes/repro_c05_complex_bicgstab.cpp -o repro && ./repro
// unchanged library: iterate 1 differs from textbook BiCGStab by 1.3 (relative), the residual GROWS: |r|/|f| = 3.1, 9.1, 5.2
//                    after 1, 2, 3 = n iterations                                                               -> exit 1
// with repo_patches/complex_bicgstab.patch: distances 0, 6e-16, 2e-15; |r|/|f| = 1.7, 0.37, 2.6e-15                -> exit 0
#include <iostream>
#include <vector>
#include <complex>
#include <tuple>
#include <cmath>
#include <amgcl/value_type/complex.hpp>
#include <amgcl/backend/builtin.hpp>
#include <amgcl/adapter/crs_tuple.hpp>
#include <amgcl/solver/bicgstab.hpp>

typedef std::complex<double> C;
typedef std::vector<C> vec;
typedef amgcl::backend::builtin<C> Backend;
struct identity { template <class V1, class V2> void apply(const V1 &f, V2 &&x) const { for (size_t i = 0; i < f.size(); ++i) x[i] = f[i]; } };

static const int n = 3;
static const C a[3][3] = {{C(0, 2), C(1, 0), C(0, 0)}, {C(0, 0), C(0, -2), C(1, 0)}, {C(1, 0), C(0, 0), C(1, 2)}};
static vec mul(const vec &v) { vec w(n, C(0)); for (int i = 0; i < n; ++i) for (int j = 0; j < n; ++j) w[i] += a[i][j] * v[j]; return w; }
static C dot(const vec &u, const vec &v) { C s = 0; for (int i = 0; i < n; ++i) s += std::conj(u[i]) * v[i]; return s; }   // u^H v
static double nrm(const vec &u) { return std::sqrt(std::real(dot(u, u))); }
static vec axpy(C al, const vec &x, const vec &y) { vec z(n); for (int i = 0; i < n; ++i) z[i] = al * x[i] + y[i]; return z; }

// van der Vorst, BiCGStab, unpreconditioned, k iterations from x = 0
static vec textbook(const vec &f, int k) {
    vec x(n, C(0)), r = f, rh = f, p, v; C rho = 0, rho_old = 0, alpha = 0, omega = 0;
    for (int it = 0; it < k; ++it) {
        rho_old = rho; rho = dot(rh, r);
        if (it == 0) p = r; else { C beta = (rho / rho_old) * (alpha / omega); p = axpy(beta, axpy(-omega, v, p), r); }
        v = mul(p); alpha = rho / dot(rh, v);
        vec s = axpy(-alpha, v, r), t = mul(s); omega = dot(t, s) / dot(t, t);
        x = axpy(omega, s, axpy(alpha, p, x)); r = axpy(-omega, t, s);
    }
    return x;
}
int main() {
    std::vector<ptrdiff_t> ptr = {0, 3, 6, 9}, col = {0, 1, 2, 0, 1, 2, 0, 1, 2}; std::vector<C> val;
    for (int i = 0; i < n; ++i) for (int j = 0; j < n; ++j) val.push_back(a[i][j]);
    Backend::matrix A(std::tie(n, ptr, col, val));
    vec f = {C(1, 0), C(0, 1), C(1, 1)};
    int bad = 0;
    for (int k = 1; k <= n; ++k) {
        amgcl::solver::bicgstab<Backend>::params prm; prm.maxiter = k; prm.tol = 0;
        amgcl::solver::bicgstab<Backend> S(n, prm);
        vec x(n, C(0)); S(A, identity(), f, x);
        vec xt = textbook(f, k), d = axpy(-1.0, xt, x), r = axpy(-1.0, mul(x), f);
        std::cout << "k = " << k << ": distance to textbook BiCGStab " << nrm(d) / nrm(xt) << "   |f - A x| / |f| = " << nrm(r) / nrm(f) << "\n";
        if (k < n && nrm(d) / nrm(xt) > 1e-9) ++bad;
        if (k == n && nrm(r) / nrm(f) > 1e-9) { ++bad; std::cout << "not terminated with the solution after n = " << n << " iterations\n"; }
    }
    std::cout << (bad ? "FAILED\n" : "OK\n");
    return bad ? 1 : 0;
}
