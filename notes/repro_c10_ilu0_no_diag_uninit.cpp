// C10: ilu0 (likewise ilut) on a row that stores NO column >= i (no diagonal entry and nothing to its right).
// The constructor checks `precondition(c == i, "No diagonal value in system matrix")` only when its elimination loop
// meets a column c >= i; a row whose stored columns are all < i runs off the loop, no exception is thrown, and
// D[i] (allocated with numa_vector(n, false)) is never written.  The preconditioner then multiplies by heap garbage:
// the result of apply() depends on what the allocation happened to contain.
// Exit status 0 = results identical for two heap fill patterns (property holds), 1 = they differ.
//   g++ -std=c++17 -O1 -I/repo notes/repro_c10_ilu0_no_diag_uninit.cpp -o repro && ./repro
#include <cstdio>
#include <cstdlib>
#include <cstring>
#include <new>
#include <vector>
#include <tuple>
static int fill_byte = -1;
void* operator new(std::size_t n) { void *p = std::malloc(n ? n : 1); if (!p) throw std::bad_alloc(); if (fill_byte >= 0) std::memset(p, fill_byte, n); return p; }
void* operator new[](std::size_t n) { void *p = std::malloc(n ? n : 1); if (!p) throw std::bad_alloc(); if (fill_byte >= 0) std::memset(p, fill_byte, n); return p; }
void operator delete(void *p) noexcept { std::free(p); }
void operator delete[](void *p) noexcept { std::free(p); }
void operator delete(void *p, std::size_t) noexcept { std::free(p); }
void operator delete[](void *p, std::size_t) noexcept { std::free(p); }
#include <amgcl/backend/builtin.hpp>
#include <amgcl/adapter/crs_tuple.hpp>
#include <amgcl/relaxation/ilu0.hpp>
#include <amgcl/relaxation/as_preconditioner.hpp>

static std::vector<double> run(int fill) {
    // A = [[2, 0], [1, .]] : row 1 stores only column 0
    std::vector<ptrdiff_t> ptr = {0, 1, 2}, col = {0, 0}; std::vector<double> val = {2, 1}, rhs = {1, 1}, x(2, 0.0);
    typedef amgcl::backend::builtin<double> B; ptrdiff_t n = 2;
    fill_byte = fill;
    amgcl::relaxation::as_preconditioner<B, amgcl::relaxation::ilu0> P(std::tie(n, ptr, col, val));
    P.apply(rhs, x);
    fill_byte = -1;
    return x;
}
int main() {
    try {
        auto a = run(0x00), b = run(0x7F);
        std::printf("fill 0x00: x = (%g, %g)\nfill 0x7F: x = (%g, %g)\n", a[0], a[1], b[0], b[1]);
        bool same = !std::memcmp(a.data(), b.data(), 2 * sizeof(double));
        std::printf(same ? "identical\n" : "DIFFERENT: the result depends on uninitialised heap memory (D[1] never written, no exception)\n");
        return same ? 0 : 1;
    } catch (const std::exception &e) { std::printf("exception: %s (the missing diagonal was detected)\n", e.what()); return 0; }
}
