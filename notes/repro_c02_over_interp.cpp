#include <amgcl/backend/builtin.hpp>
#include <amgcl/value_type/static_matrix.hpp>
#include <amgcl/adapter/crs_tuple.hpp>
#include <amgcl/adapter/block_matrix.hpp>
#include <amgcl/amg.hpp>
#include <amgcl/coarsening/aggregation.hpp>
#include <amgcl/coarsening/smoothed_aggregation.hpp>
#include <amgcl/relaxation/spai0.hpp>
#include <amgcl/relaxation/damped_jacobi.hpp>
#include <amgcl/relaxation/gauss_seidel.hpp>
#include <Eigen/Dense>
#include <iostream>
#include <random>
// 2D variable coefficient diffusion on m x m grid, Dirichlet (SPD irreducibly diag dominant M-matrix)
static void build(int m, std::vector<ptrdiff_t>&ptr, std::vector<ptrdiff_t>&col, std::vector<double>&val, unsigned seed) {
    std::mt19937 g(seed); std::uniform_real_distribution<double> U(0.5, 4.0);
    int n = m*m; std::vector<std::vector<double>> A(n, std::vector<double>(n, 0.0));
    auto id=[&](int i,int j){return i*m+j;};
    for (int i=0;i<m;i++) for(int j=0;j<m;j++){ 
        if (i+1<m){ double w=U(g); A[id(i,j)][id(i+1,j)]-=w; A[id(i+1,j)][id(i,j)]-=w; A[id(i,j)][id(i,j)]+=w; A[id(i+1,j)][id(i+1,j)]+=w; }
        if (j+1<m){ double w=U(g); A[id(i,j)][id(i,j+1)]-=w; A[id(i,j+1)][id(i,j)]-=w; A[id(i,j)][id(i,j)]+=w; A[id(i,j+1)][id(i,j+1)]+=w; }
        if (i==0||j==0||i==m-1||j==m-1) A[id(i,j)][id(i,j)] += 1.0;
    }
    ptr.assign(1,0); col.clear(); val.clear();
    for (int i=0;i<n;i++){ for(int j=0;j<n;j++) if (A[i][j]!=0){col.push_back(j);val.push_back(A[i][j]);} ptr.push_back(col.size()); }
}
template <class AMG, class Vec, class F> double rho(AMG &amg, int n, const Eigen::MatrixXd &A, F fill) {
    Eigen::MatrixXd B(n,n);
    for (int j=0;j<n;j++){ Vec f, x; fill(f, x, j); amg.apply(f, x); for(int i=0;i<n;i++) B(i,j)= ((double*)&x[0])[i]; }
    Eigen::MatrixXd E = Eigen::MatrixXd::Identity(n,n) - B*A;
    Eigen::EigenSolver<Eigen::MatrixXd> es(E, false); double r=0; for (int i=0;i<n;i++) r=std::max(r, std::abs(es.eigenvalues()[i])); return r;
}
template <template<class> class C, template<class> class R> void scalar(const char*name, int m, float over, int ce, int ncycle) {
    std::vector<ptrdiff_t> ptr,col; std::vector<double> val; build(m,ptr,col,val,1); int n=m*m;
    typedef amgcl::backend::builtin<double> BE; typedef amgcl::amg<BE,C,R> AMG; typename AMG::params p; p.coarse_enough=ce; p.ncycle=ncycle; p.npre=p.npost=1;
    if constexpr (std::is_same<C<BE>, amgcl::coarsening::aggregation<BE>>::value) { if (over>0) p.coarsening.over_interp=over; }
    AMG amg(std::tie(n,ptr,col,val), p);
    Eigen::MatrixXd A=Eigen::MatrixXd::Zero(n,n); for(int i=0;i<n;i++) for(auto j=ptr[i];j<ptr[i+1];j++) A(i,col[j])=val[j];
    typedef amgcl::backend::numa_vector<double> V;
    struct W { std::shared_ptr<V> v; double& operator[](size_t i){return (*v)[i];} };
    Eigen::MatrixXd B(n,n);
    for (int j=0;j<n;j++){ V f(n), x(n); for(int i=0;i<n;i++){f[i]=(i==j); x[i]=0;} amg.apply(f,x); for(int i=0;i<n;i++) B(i,j)=x[i]; }
    Eigen::MatrixXd E = Eigen::MatrixXd::Identity(n,n) - B*A; Eigen::EigenSolver<Eigen::MatrixXd> es(E,false); double r=0; for(int i=0;i<n;i++) r=std::max(r,std::abs(es.eigenvalues()[i]));
    int nl=0; { std::ostringstream s; s<<amg; std::string t=s.str(); size_t q=t.find("Number of levels:"); nl=atoi(t.c_str()+q+17);} 
    std::cout<<"scalar "<<name<<" m="<<m<<" over="<<over<<" ce="<<ce<<" ncycle="<<ncycle<<" levels="<<nl<<" rho="<<r<<(r>=1?"  <<<<<< NOT CONTRACTING":"")<<"\n";
}
template <template<class> class C, template<class> class R> void block2(const char*name, int m, float over, int ce, int ncycle) {
    std::vector<ptrdiff_t> ptr,col; std::vector<double> val; build(m,ptr,col,val,1); int n=m*m; if (n%2) return;
    typedef amgcl::static_matrix<double,2,2> bv; typedef amgcl::static_matrix<double,2,1> br;
    typedef amgcl::backend::builtin<bv> BE; typedef amgcl::amg<BE,C,R> AMG; typename AMG::params p; p.coarse_enough=ce; p.ncycle=ncycle; p.npre=p.npost=1;
    if constexpr (std::is_same<C<BE>, amgcl::coarsening::aggregation<BE>>::value) { if (over>0) p.coarsening.over_interp=over; }
    auto As = std::tie(n,ptr,col,val);
    AMG amg(amgcl::adapter::block_matrix<bv>(As), p);
    Eigen::MatrixXd A=Eigen::MatrixXd::Zero(n,n); for(int i=0;i<n;i++) for(auto j=ptr[i];j<ptr[i+1];j++) A(i,col[j])=val[j];
    typedef amgcl::backend::numa_vector<br> V; int nb=n/2;
    Eigen::MatrixXd B(n,n);
    for (int j=0;j<n;j++){ V f(nb), x(nb); for(int i=0;i<nb;i++){ f[i](0)=(2*i==j); f[i](1)=(2*i+1==j); x[i](0)=x[i](1)=0;} amg.apply(f,x); for(int i=0;i<nb;i++){ B(2*i,j)=x[i](0); B(2*i+1,j)=x[i](1);} }
    Eigen::MatrixXd E = Eigen::MatrixXd::Identity(n,n) - B*A; Eigen::EigenSolver<Eigen::MatrixXd> es(E,false); double r=0; for(int i=0;i<n;i++) r=std::max(r,std::abs(es.eigenvalues()[i]));
    int nl=0; { std::ostringstream s; s<<amg; std::string t=s.str(); size_t q=t.find("Number of levels:"); nl=atoi(t.c_str()+q+17);} 
    std::cout<<"block2 "<<name<<" m="<<m<<" over="<<over<<" ce="<<ce<<" ncycle="<<ncycle<<" levels="<<nl<<" rho="<<r<<(r>=1?"  <<<<<< NOT CONTRACTING":"")<<"\n";
}

int main(){ using namespace amgcl;
  for (int m : {3,4,5,6,7}) for (int ce : {1,2,3}) { scalar<coarsening::aggregation, relaxation::damped_jacobi>("agg+jac", m, 1.5f, ce, 1); scalar<coarsening::aggregation, relaxation::spai0>("agg+spai0", m, 1.5f, ce, 1);}
}
