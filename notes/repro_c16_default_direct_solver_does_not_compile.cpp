// reproducer: backend::detail::default_direct_solver cannot be instantiated (no function `inverse` for a CRS matrix exists in the library)
#include <amgcl/backend/builtin.hpp>
#include <amgcl/backend/detail/default_direct_solver.hpp>
int main() {
    typedef amgcl::backend::builtin<double> B;
    std::vector<ptrdiff_t> ptr = {0, 1, 2}, col = {0, 1}; std::vector<double> val = {2, 4};
    auto A = std::make_shared<B::matrix>((size_t)2, (size_t)2, ptr, col, val);
    amgcl::backend::detail::default_direct_solver<B> S(A, B::params());
    std::vector<double> f = {2, 4}, x(2); S(f, x);
    return !(x[0] == 1 && x[1] == 1);
}
