#include "qtype.hpp"
#include <amgcl/backend/builtin.hpp>
#include <amgcl/coarsening/ruge_stuben.hpp>
#include <cstdio>
int main(int argc, char**argv) {
    typedef amgcl::backend::builtin<double> B;
    // 3x3: rows 1,2 have only positive off-diagonals -> marked F by connect(), their S.val stays uninitialised
    std::vector<ptrdiff_t> ptr = {0,3,6,9}, col = {0,1,2, 0,1,2, 0,1,2};
    std::vector<double> val = {4,-1,-1,  1,4,1,  1,1,4};
    amgcl::backend::crs<double> A(3,3,ptr,col,val);
    amgcl::coarsening::ruge_stuben<B> rs;
    auto PR = rs.transfer_operators(A);
    auto &P = *std::get<0>(PR);
    printf("P %zu x %zu nnz %td\n", P.nrows, P.ncols, P.ptr[P.nrows]);
}
