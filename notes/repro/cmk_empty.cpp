// Stand-alone reproducer: amgcl::reorder::cuthill_mckee<rev>::get on an EMPTY (0 x 0) matrix accesses element 0 of empty
// vectors (cuthill_mckee.hpp:124 `perm[0] = initialNode;`, :126 `levelSet[initialNode] = ...`, :127 `degree[initialNode]`).
// Reached from public entry points with a well-formed (empty) CRS matrix:
//   mode 0: reorder::cuthill_mckee<false>::get(A, perm) with perm.size() == rows(A) == 0
//   mode 1: solver::skyline_lu<double>(A)                 (its default ordering; perm(n) is empty)
//   mode 2: amg<builtin<double>, smoothed_aggregation, spai0>(A)   (an empty system is its own coarsest level -> skyline_lu)
// Build:  g++ -std=c++17 -O1 -g -fsanitize=address,undefined -fno-sanitize-recover=all -I/repo cmk_empty.cpp -o cmk_empty
// Run:    ./cmk_empty 0|1|2     -> UBSan "reference binding to null pointer" / ASan SEGV on the unchanged tree
//         (exit 0 and "survived" would mean the access is gone).
// Model:  CMK.get rev A perm0 = .oob for A.nrows = 0 (Properties/C16c.lean, cmk_empty_oob); for n >= 1 the model proves that
//         no out-of-range access exists (cmk_total), so n = 0 is the ONLY input size with this behaviour.
#include <vector>
#include <iostream>
#include <cstdlib>
#include <amgcl/backend/builtin.hpp>
#include <amgcl/reorder/cuthill_mckee.hpp>
#include <amgcl/solver/skyline_lu.hpp>
#include <amgcl/amg.hpp>
#include <amgcl/coarsening/smoothed_aggregation.hpp>
#include <amgcl/relaxation/spai0.hpp>

int main(int argc, char **argv) {
    int mode = argc > 1 ? atoi(argv[1]) : 0;
    std::vector<ptrdiff_t> ptr(1, 0), col; std::vector<double> val;
    amgcl::backend::crs<double, ptrdiff_t, ptrdiff_t> A(0, 0, ptr, col, val);
    if (mode == 0) {
        std::vector<ptrdiff_t> perm(amgcl::backend::rows(A));
        amgcl::reorder::cuthill_mckee<false>::get(A, perm);
    } else if (mode == 1) {
        amgcl::solver::skyline_lu<double> S(A);
    } else {
        typedef amgcl::backend::builtin<double> B;
        amgcl::amg<B, amgcl::coarsening::smoothed_aggregation, amgcl::relaxation::spai0> P(A);
    }
    std::cout << "survived" << std::endl;
    return 0;
}
