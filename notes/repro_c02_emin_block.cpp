// g++ -std=c++17 -O1 -I/repo notes/repro_c02_emin_block.cpp -o repro && ./repro
//
// C02 (B symmetric for SPD M-matrices and symmetric smoothers, "block sizes" included) is violated on the UNCHANGED
// library by coarsening::smoothed_aggr_emin with a block value type:
//
//   4 x 4 SPD, irreducibly diagonally dominant M-matrix (2 nodes x 2 components), viewed as 2 block rows of
//   static_matrix<double,2,2>; amg<builtin<block>, smoothed_aggr_emin, damped_jacobi>, coarse_enough = 1, V(1,1):
//   two levels, R != P^T, and the preconditioner B is NOT symmetric (max|B - B^T| / max|B| ~ 1e-2).
//   The same matrix with the scalar backend (or with smoothed_aggregation on the block backend) gives a symmetric B.
//
// Cause (amgcl/coarsening/smoothed_aggr_emin.hpp): P = P_tent - D^-1 Af P_tent Omega and R = R_tent - Omega R_tent Af D^-1 are
// computed separately with BLOCK valued Omega_i and D_i.  R = P^T needs Omega_i and D_i symmetric and D^-1 applied from the
// right in restriction(); but  (a) omega[i] = inverse(denum[i]) * sum AP(k,i) * ADAP(k,i)  is a product of blocks (no adjoint),
// not symmetric;  (b) restriction() computes  -omega[i] * inverse(Adia[ca]) * RA(i,ca)  (D^-1 from the LEFT of the entry, the
// formula in its own comment has it on the right);  (c) Adia[i] = A_ii + (weak off-diagonal blocks of row i) is not symmetric
// as soon as a weak block is lumped.  The exact-rational harness op that found it:
//   bamg_bmat 2 3 1 1 1 10 4 4 3 0 7/2 1 -2 2 -1 3 0 -2 1 6 3 -2 3 0 -1 2 7/2 3 -3/2 3 1 -2 2 -3/2 3 11/2 2 1 1 2 1
#include <vector>
#include <iostream>
#include <cmath>
#include <tuple>
#include <amgcl/backend/builtin.hpp>
#include <amgcl/value_type/static_matrix.hpp>
#include <amgcl/adapter/crs_tuple.hpp>
#include <amgcl/adapter/block_matrix.hpp>
#include <amgcl/amg.hpp>
#include <amgcl/coarsening/smoothed_aggregation.hpp>
#include <amgcl/coarsening/smoothed_aggr_emin.hpp>
#include <amgcl/relaxation/damped_jacobi.hpp>

static const int n = 4;
static std::vector<ptrdiff_t> ptr = { 0, 3, 6, 9, 12 };
static std::vector<ptrdiff_t> col = { 0, 1, 2,   0, 1, 3,   0, 2, 3,   1, 2, 3 };
static std::vector<double>    val = { 3.5, -2, -1,   -2, 6, -2,   -1, 3.5, -1.5,   -2, -1.5, 5.5 };

template <template <class> class C>
static double block_asym(const char *name) {
    typedef amgcl::static_matrix<double, 2, 2> blk; typedef amgcl::static_matrix<double, 2, 1> rhs;
    typedef amgcl::amg<amgcl::backend::builtin<blk>, C, amgcl::relaxation::damped_jacobi> AMG;
    typename AMG::params p; p.coarse_enough = 1; p.npre = p.npost = 1;
    int nn = n; auto As = std::tie(nn, ptr, col, val);
    AMG amg(amgcl::adapter::block_matrix<blk>(As), p);
    double B[n][n];
    for (int j = 0; j < n; ++j) {
        std::vector<rhs> f(n / 2), x(n / 2);
        for (int i = 0; i < n; ++i) f[i / 2](i % 2) = i == j;
        amg.apply(f, x);
        for (int i = 0; i < n; ++i) B[i][j] = x[i / 2](i % 2);
    }
    double asym = 0, mx = 0;
    for (int i = 0; i < n; ++i) for (int j = 0; j < n; ++j) { asym = std::max(asym, std::abs(B[i][j] - B[j][i])); mx = std::max(mx, std::abs(B[i][j])); }
    std::cout << name << " (2x2 blocks): max|B - B^T| / max|B| = " << asym / mx << std::endl;
    return asym / mx;
}
static double scalar_asym() {
    typedef amgcl::amg<amgcl::backend::builtin<double>, amgcl::coarsening::smoothed_aggr_emin, amgcl::relaxation::damped_jacobi> AMG;
    AMG::params p; p.coarse_enough = 1; p.npre = p.npost = 1;
    int nn = n; AMG amg(std::tie(nn, ptr, col, val), p);
    double B[n][n];
    for (int j = 0; j < n; ++j) { std::vector<double> f(n, 0.0), x(n); f[j] = 1; amg.apply(f, x); for (int i = 0; i < n; ++i) B[i][j] = x[i]; }
    double asym = 0, mx = 0;
    for (int i = 0; i < n; ++i) for (int j = 0; j < n; ++j) { asym = std::max(asym, std::abs(B[i][j] - B[j][i])); mx = std::max(mx, std::abs(B[i][j])); }
    std::cout << "smoothed_aggr_emin (scalar): max|B - B^T| / max|B| = " << asym / mx << std::endl;
    return asym / mx;
}
int main() {
    double s = scalar_asym();
    double a = block_asym<amgcl::coarsening::smoothed_aggregation>("smoothed_aggregation");
    double e = block_asym<amgcl::coarsening::smoothed_aggr_emin>("smoothed_aggr_emin");
    bool bad = !(e < 1e-12);
    std::cout << (bad ? "VIOLATION: B of smoothed_aggr_emin with a block value type is not symmetric" : "ok") << std::endl;
    (void)s; (void)a;
    return bad ? 1 : 0;
}
