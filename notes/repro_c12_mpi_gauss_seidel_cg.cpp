// Reproducer (C12): distributed AMG with Gauss-Seidel smoothing is not a symmetric preconditioner, CG does not converge
// on an SPD M-matrix as soon as rows have off-rank couplings.
//
//   mpicxx -std=c++17 -O1 -I/repo notes/repro_c12_mpi_gauss_seidel_cg.cpp -o repro && mpirun -np 4 ./repro [nx]
//
// System: 5-point Laplacian (Dirichlet) on an nx x np grid, rank r owns grid line r (one line per rank).
// amgcl::mpi::amg<builtin<double>, mpi::coarsening::aggregation, mpi::relaxation::gauss_seidel, mpi::direct::skyline_lu>
// + mpi::solver::cg.  amgcl/mpi/relaxation/gauss_seidel.hpp forwards apply_pre/apply_post to the serial sweeps on
// *A.local_backend(): the sweep solves  (L+D)_loc x_new = rhs - U_loc x  and never sees  A_rem x.  Pre-smoothing starts
// from x = 0, so nothing is lost there; post-smoothing runs after the coarse-grid correction, with x != 0, on the WRONG
// equation A_loc x = rhs.  The V-cycle B is then neither symmetric nor a contraction: (u, B v) != (B u, v), and CG (which
// the same configuration solves in a handful of iterations on one rank) stalls.  BiCGStab / GMRES still converge.
#include <iostream>
#include <vector>
#include <cmath>
#include <amgcl/backend/builtin.hpp>
#include <amgcl/adapter/crs_tuple.hpp>
#include <amgcl/mpi/util.hpp>
#include <amgcl/mpi/make_solver.hpp>
#include <amgcl/mpi/amg.hpp>
#include <amgcl/mpi/coarsening/aggregation.hpp>
#include <amgcl/mpi/relaxation/gauss_seidel.hpp>
#include <amgcl/mpi/relaxation/spai0.hpp>
#include <amgcl/mpi/direct_solver/skyline_lu.hpp>
#include <amgcl/mpi/solver/cg.hpp>

typedef amgcl::backend::builtin<double> B;
template <template <class> class Relax> using Solver = amgcl::mpi::make_solver<
    amgcl::mpi::amg<B, amgcl::mpi::coarsening::aggregation<B>, Relax<B>, amgcl::mpi::direct::skyline_lu<double>>,
    amgcl::mpi::solver::cg<B>>;

template <template <class> class Relax>
static bool run(amgcl::mpi::communicator comm, const char *name, ptrdiff_t nx) {
    const ptrdiff_t ny = comm.size, j = comm.rank, n = nx;
    std::vector<ptrdiff_t> ptr(1, 0), col; std::vector<double> val, rhs(n), x(n, 0.0);
    for (ptrdiff_t i = 0; i < nx; ++i) {
        ptrdiff_t g = j * nx + i;
        if (j > 0)      { col.push_back(g - nx); val.push_back(-1); }
        if (i > 0)      { col.push_back(g - 1);  val.push_back(-1); }
        col.push_back(g); val.push_back(4);
        if (i + 1 < nx) { col.push_back(g + 1);  val.push_back(-1); }
        if (j + 1 < ny) { col.push_back(g + nx); val.push_back(-1); }
        ptr.push_back(col.size());
        rhs[i] = 1.0 + (7 * g) % 13;
    }
    typename Solver<Relax>::params prm;
    prm.precond.coarse_enough = 3; prm.solver.tol = 1e-10; prm.solver.maxiter = 200;
    Solver<Relax> solve(comm, std::tie(n, ptr, col, val), prm);

    // symmetry of the preconditioner on two fixed vectors
    amgcl::backend::numa_vector<double> u(n), v(n), Bu(n), Bv(n);
    for (ptrdiff_t i = 0; i < n; ++i) { ptrdiff_t g = j * nx + i; u[i] = 1.0 + g % 3; v[i] = (g * 7) % 5 - 2.0; }
    solve.precond().apply(u, Bu); solve.precond().apply(v, Bv);
    amgcl::mpi::inner_product ip(comm); double uBv = ip(u, Bv), Buv = ip(Bu, v);

    size_t iters; double resid; std::tie(iters, resid) = solve(rhs, x);
    bool ok = iters < 200 && resid <= 1e-10;
    if (comm.rank == 0)
        std::cout << "aggregation + " << name << " + cg on " << comm.size << " ranks (" << nx << " x " << ny << " grid, one line per rank): iters=" << iters
                  << " resid=" << resid << "   (u,Bv)=" << uBv << " (Bu,v)=" << Buv << (ok ? "  OK" : "  FAIL: not converged") << std::endl;
    return ok;
}

int main(int argc, char *argv[]) {
    amgcl::mpi::init mpi(&argc, &argv);
    amgcl::mpi::communicator comm(MPI_COMM_WORLD);
    ptrdiff_t nx = argc > 1 ? atol(argv[1]) : 8;
    bool a = run<amgcl::mpi::relaxation::spai0>(comm, "spai0", nx);
    bool b = run<amgcl::mpi::relaxation::gauss_seidel>(comm, "gauss_seidel", nx);
    return (a && b) ? 0 : 1;
}
