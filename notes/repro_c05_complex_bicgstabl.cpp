// Reproducer (C05, complex systems): amgcl/solver/bicgstabl.hpp, polynomial (minimal residual) part.
//     MZa(i, j) = inner_product(*R[i], *R[j])            for j <= i         ( = R_j^H R_i )
//     MZa(i, j) = MZa(j, i) = math::adjoint(MZa(j, i))   for j >  i         "Symmetrize MZa"
// The second statement conjugates the stored lower triangle as well and makes the matrix SYMMETRIC, Z(i,j) = Z(j,i) =
// R_max^H R_min, where the normal equations of  min || R_0 - sum_i gamma_i R_i ||  need the HERMITIAN Gram matrix
// G(k,i) = R_k^H R_i.  For L >= 2 and complex data the coefficients gamma are therefore not the minimal-residual ones
// (for L = 1 the matrix is 1 x 1 and real, and real value types are not affected); the non-convex branch in addition
// forms y^T Z y instead of y^H Z y.  Effect: the iterate after every sweep is not the BiCGStab(L) iterate, residuals are
// larger than necessary, and the loss of the minimal-residual property makes the method numerically fragile
// (termination within n iterations fails with residuals up to 1e-4 on 8 x 8 systems with condition number < 10).
//
//   g++ -std=c++17 -I<amgcl> notes/repro_c05_complex_bicgstabl.cpp -o repro && ./repro
// unchanged library: after one sweep of BiCGStab(2) |f - A x| = 1.98956, the minimal-residual polynomial gives 1.87719,
//                    iterates 0.24 apart (relative)                                                                -> exit 1
// with repo_patches/complex_bicgstabl.patch: 1.87719 = 1.87719, distance 9e-16                                      -> exit 0
#include <iostream>
#include <vector>
#include <complex>
#include <tuple>
#include <cmath>
#include <amgcl/value_type/complex.hpp>
#include <amgcl/backend/builtin.hpp>
#include <amgcl/adapter/crs_tuple.hpp>
#include <amgcl/solver/bicgstabl.hpp>

typedef std::complex<double> C;
typedef std::vector<C> vec;
typedef amgcl::backend::builtin<C> Backend;
struct identity { template <class V1, class V2> void apply(const V1 &f, V2 &&x) const { for (size_t i = 0; i < f.size(); ++i) x[i] = f[i]; } };

static const int n = 4;
static const C a[4][4] = {{C(0, 2), C(1, 0), C(0, 0), C(0, 0)}, {C(0, 0), C(0, -2), C(1, 0), C(0, 0)}, {C(0, 0), C(0, 0), C(1, 2), C(1, 0)}, {C(1, 0), C(0, 0), C(0, 0), C(2, -1)}};
static vec mul(const vec &v) { vec w(n, C(0)); for (int i = 0; i < n; ++i) for (int j = 0; j < n; ++j) w[i] += a[i][j] * v[j]; return w; }
static C dot(const vec &u, const vec &v) { C s = 0; for (int i = 0; i < n; ++i) s += std::conj(u[i]) * v[i]; return s; }   // u^H v
static double nrm(const vec &u) { return std::sqrt(std::real(dot(u, u))); }
static vec axpy(C al, const vec &x, const vec &y) { vec z(n); for (int i = 0; i < n; ++i) z[i] = al * x[i] + y[i]; return z; }

int main() {
    std::vector<ptrdiff_t> ptr(n + 1), col; std::vector<C> val;
    for (int i = 0; i < n; ++i) { ptr[i] = col.size(); for (int j = 0; j < n; ++j) { col.push_back(j); val.push_back(a[i][j]); } } ptr[n] = col.size();
    Backend::matrix A(std::tie(n, ptr, col, val));
    vec f = {C(1, 0), C(0, 1), C(1, 1), C(1, -1)};

    amgcl::solver::bicgstabl<Backend>::params prm; prm.L = 2; prm.maxiter = 2; prm.tol = 0; prm.convex = true;
    amgcl::solver::bicgstabl<Backend> S(n, prm);
    vec x(n, C(0)); S(A, identity(), f, x);

    // one sweep of BiCGStab(2) (Sleijpen & Fokkema 1993) from x = 0: two BiCG steps, then the minimal-residual polynomial
    vec rt = f, X(n, C(0)), R[3], U[3]; R[0] = f; U[0] = vec(n, C(0)); C rho0 = -1.0, alpha = 0;
    for (int j = 0; j < 2; ++j) {
        C rho1 = dot(rt, R[j]), beta = alpha * (rho1 / rho0); rho0 = rho1;
        for (int i = 0; i <= j; ++i) U[i] = axpy(-beta, U[i], R[i]);
        U[j + 1] = mul(U[j]); alpha = rho1 / dot(rt, U[j + 1]); X = axpy(alpha, U[0], X);
        for (int i = 0; i <= j; ++i) R[i] = axpy(-alpha, U[i + 1], R[i]);
        R[j + 1] = mul(R[j]);
    }
    C g11 = dot(R[1], R[1]), g12 = dot(R[1], R[2]), g21 = dot(R[2], R[1]), g22 = dot(R[2], R[2]), b1 = dot(R[1], R[0]), b2 = dot(R[2], R[0]), det = g11 * g22 - g12 * g21;
    C y1 = (b1 * g22 - g12 * b2) / det, y2 = (g11 * b2 - g21 * b1) / det;
    vec xm = axpy(y2, R[1], axpy(y1, R[0], X));
    vec d = axpy(-1.0, xm, x), rl = axpy(-1.0, mul(x), f), rm = axpy(-1.0, mul(xm), f);
    std::cout << "BiCGStab(2), one sweep: |f - A x| = " << nrm(rl) << "   BiCG(2) + minimal-residual polynomial: " << nrm(rm)
              << "   relative distance of the iterates " << nrm(d) / nrm(xm) << "\n";
    bool bad = nrm(d) / nrm(xm) > 1e-9;
    std::cout << (bad ? "FAILED\n" : "OK\n");
    return bad ? 1 : 0;
}
