// C18 finding: cpr with BLOCK-valued input and active_rows < n builds a pressure matrix App with out-of-range
// column indices whenever an active block row couples to an inactive block column.
//
// init(K, bprm, false_type) (cpr.hpp:402-474) copies the whole sparsity pattern of the first np = active_rows block
// rows into App (`App->col[j] = K->col[j]`, `App->ptr[i+1] = K->ptr[i+1]`) although App is declared np x np
// (`App->set_size(np, np, true)`).  The scalar code path (first_scalar_pass, `k[i].col() < N`) drops the columns
// >= active_rows, so the same system given as scalar matrix with block_size = b gives a different (valid) App.
// Any real pressure preconditioner (amg, relaxation) then indexes vectors of length np with those columns.
//
//   g++ -std=c++17 -I/repo repro_c18_cpr_block_active_rows.cpp && ./a.out
#include <iostream>
#include <vector>
#include <amgcl/backend/builtin.hpp>
#include <amgcl/value_type/static_matrix.hpp>
#include <amgcl/preconditioner/cpr.hpp>
#include <amgcl/preconditioner/dummy.hpp>

typedef amgcl::static_matrix<double,2,2> blk;
typedef amgcl::backend::builtin<double> PB;
typedef amgcl::backend::builtin<blk>    SB;

// pressure "preconditioner" that only reports the matrix it is constructed with
struct Show {
    typedef PB backend_type; typedef PB::matrix matrix; typedef PB::params backend_params; typedef amgcl::detail::empty_params params;
    std::shared_ptr<matrix> A;
    Show(std::shared_ptr<matrix> A_, const params& = params(), const backend_params& = backend_params()) : A(A_) {
        std::cout << "App is " << A->nrows << " x " << A->ncols << "; stored columns:";
        bool bad = false;
        for (size_t i = 0; i < A->nrows; ++i) for (auto j = A->ptr[i]; j < A->ptr[i+1]; ++j) { std::cout << " (" << i << "," << A->col[j] << ")"; if ((size_t)A->col[j] >= A->ncols) bad = true; }
        std::cout << (bad ? "   <-- column index out of range" : "   ok") << std::endl;
    }
    template <class V1, class V2> void apply(const V1 &r, V2 &&x) const { amgcl::backend::copy(r, x); }
    const matrix& system_matrix() const { return *A; }
};

int main() {
    // 3 block rows, the last one is an inactive ("well") block; block row 0 couples to it
    blk I = amgcl::math::identity<blk>();
    std::vector<ptrdiff_t> ptr = {0, 2, 3, 5}, col = {0, 2, 1, 0, 2}; std::vector<blk> val = {2.0 * I, I, 2.0 * I, I, 2.0 * I};
    auto K = std::make_shared<amgcl::backend::crs<blk>>(3, 3, ptr, col, val);
    typedef amgcl::preconditioner::cpr<Show, amgcl::preconditioner::dummy<SB>> CPR;
    CPR::params prm; prm.active_rows = 2;
    CPR P(K, prm);

    // the same system as a scalar matrix with run-time block_size = 2 and active_rows = 4
    std::vector<ptrdiff_t> sptr = {0}, scol; std::vector<double> sval;
    for (int i = 0; i < 3; ++i) for (int r = 0; r < 2; ++r) { for (auto j = ptr[i]; j < ptr[i+1]; ++j) for (int s = 0; s < 2; ++s) { scol.push_back(col[j] * 2 + s); sval.push_back(val[j](r, s)); } sptr.push_back(scol.size()); }
    auto Ks = std::make_shared<amgcl::backend::crs<double>>(6, 6, sptr, scol, sval);
    typedef amgcl::preconditioner::cpr<Show, amgcl::preconditioner::dummy<PB>> CPRS;
    CPRS::params sprm; sprm.block_size = 2; sprm.active_rows = 4;
    CPRS Ps(Ks, sprm);
    return 0;
}
