// reproducer: common_scalar_backend has no member `type` for two different SCALAR backends
#include <amgcl/backend/builtin.hpp>
#include <amgcl/backend/detail/mixing.hpp>
int main() {
    typedef amgcl::backend::detail::common_scalar_backend<amgcl::backend::builtin<float>, amgcl::backend::builtin<double>>::type T;
    return sizeof(T) == 0;
}
