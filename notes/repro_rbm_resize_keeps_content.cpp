// rigid_body_modes.hpp l.51: `B.resize(n * nmodes, 0.0)` zero-fills only NEW cells.  The fill loop writes 2 (2D) or 3 (3D)
// cells per row and relies on the others being zero, so a vector that is not empty on entry (a reused std::vector)
// leaks its old content into the result: the same coordinates give a different B.
// exit 0 = result independent of the prior content of B, exit 1 = it depends on it.
#include <vector>
#include <cmath>
#include <cstdio>
#include <array>
#include <algorithm>
#include <amgcl/coarsening/rigid_body_modes.hpp>
int main() {
    std::vector<double> coo = {0, 0, 3, 1}, B1, B2(12, 7.0);
    amgcl::coarsening::rigid_body_modes(2, coo, B1);
    amgcl::coarsening::rigid_body_modes(2, coo, B2);
    bool same = B1 == B2;
    for (size_t i = 0; i < B1.size(); ++i) std::printf("%2zu  fresh % .6f   reused % .6f\n", i, B1[i], B2[i]);
    return same ? 0 : 1;
}
