// spai1 on a matrix with an empty row: &B[0], &ek[0] on empty std::vector
#include <vector>
#include <iostream>
#include <amgcl/backend/builtin.hpp>
#include <amgcl/adapter/crs_tuple.hpp>
#include <amgcl/relaxation/spai1.hpp>
int main() {
    typedef amgcl::backend::builtin<double> Backend;
    // 2x2: row 0 empty, row 1 = {1: 2.0}
    std::vector<ptrdiff_t> ptr = {0, 0, 1}; std::vector<ptrdiff_t> col = {1}; std::vector<double> val = {2.0};
    amgcl::backend::crs<double> A(std::make_tuple(2, ptr, col, val));
    amgcl::relaxation::spai1<Backend> R(A, amgcl::relaxation::spai1<Backend>::params(), Backend::params());
    std::cout << R.M->val[0] << std::endl;
}
