// rigid_body_modes.hpp: the comment says "Orthonormalization", but the translation columns are filled with
// sn = 1/sqrt(n), n = coo.size() = ndim * (number of nodes).  Each translation column has n/ndim non-zeros, so its
// squared norm is 1/ndim, not 1.  The Gram-Schmidt loop subtracts dot[k]*B_k (correct only for unit B_k), hence the
// rotation columns are NOT orthogonal to the translations (and the translations are not unit vectors).
// Two nodes (0,0) and (1,0) in 2D: <rotation, y-translation> = 0.3162..., |translation|^2 = 0.5.
// exit 0 = columns orthonormal (property holds), exit 1 = not orthonormal.
#include <vector>
#include <cmath>
#include <cstdio>
#include <array>
#include <algorithm>
#include <amgcl/coarsening/rigid_body_modes.hpp>
int main() {
    std::vector<double> coo = {0, 0, 1, 0}, B;
    int m = amgcl::coarsening::rigid_body_modes(2, coo, B);
    size_t n = coo.size(); double worst = 0;
    for (int a = 0; a < m; ++a) for (int b = 0; b < m; ++b) {
        double g = 0; for (size_t i = 0; i < n; ++i) g += B[i * m + a] * B[i * m + b];
        std::printf("G[%d][%d] = %.17g\n", a, b, g);
        worst = std::max(worst, std::fabs(g - (a == b ? 1.0 : 0.0)));
    }
    std::printf("max |B^T B - I| = %.17g\n", worst);
    return worst > 1e-12 ? 1 : 0;
}
