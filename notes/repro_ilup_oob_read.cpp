// ilup on a matrix whose last row stores no diagonal: the scatter loop reads P->col[p_end] (one past the array)
//   A (pattern) = rows {0} {0} {1};  A^2 row 2 = {0};  entry (2,1) of A is not in the pattern of A^2
#include <vector>
#include <iostream>
#include <amgcl/backend/builtin.hpp>
#include <amgcl/adapter/crs_tuple.hpp>
#include <amgcl/relaxation/ilup.hpp>
int main() {
    typedef amgcl::backend::builtin<double> Backend;
    std::vector<ptrdiff_t> ptr = {0, 1, 2, 3}; std::vector<ptrdiff_t> col = {0, 0, 1}; std::vector<double> val = {1.0, 1.0, 1.0};
    amgcl::backend::crs<double> A(std::make_tuple(3, ptr, col, val));
    amgcl::relaxation::ilup<Backend>::params prm; prm.k = 1;
    try { amgcl::relaxation::ilup<Backend> R(A, prm, Backend::params()); std::cout << "constructed" << std::endl; }
    catch (const std::exception &e) { std::cout << "exception: " << e.what() << std::endl; }
}
