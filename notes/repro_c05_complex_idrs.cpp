// Reproducer (C05, complex systems): amgcl/solver/idrs.hpp, argument order of amgcl's sesquilinear inner product
// inner_product(x, y) = sum x_i conj(y_i) = y^H x in the two minimal-residual coefficients:
//     omega():    ts = inner_product(t, s) = s^H t;   om = ts / |t|^2          -- minimal residual: (t^H s) / |t|^2
//     smoothing:  gamma = inner_product(*t, *r_s) / inner_product(*t, *t)      -- minimal residual: (t^H r_s) / |t|^2
// Both are the complex CONJUGATE of the value that minimises || s - om t || resp. || r_s - gamma t ||.  Documented
// behaviour ("omega = 0: a standard minimum residual step is performed"; residual smoothing) is lost for complex data: the
// dimension-reduction step can INCREASE the residual and the smoothed residual norms are not monotone.  Finite
// termination is not affected (any non-zero omega keeps the IDR theorem); real value types are not affected.
//
//   g++ -std=c++17 -fopenmp -I<amgcl> notes/repro_c05_complex_idrs.cpp -o repro && OMP_NUM_THREADS=1 ./repro
// unchanged library: om applied in iteration 2 of IDR(1) = (-0.0459, +0.0355) = conj of the minimal-residual om
//                    (-0.0459, -0.0355): |r| 2.3498 -> 2.3585 (minimal-residual step: 2.3324); with smoothing the returned
//                    residual norms INCREASE: |f| = 1.732 -> 2.076 -> 2.943                                     -> exit 1
// with repo_patches/complex_idrs.patch: om equal, |r| 2.3498 -> 2.3324, smoothed residuals 1.763, 1.754, 1.283  -> exit 0
#include <iostream>
#include <vector>
#include <complex>
#include <tuple>
#include <cmath>
#include <amgcl/value_type/complex.hpp>
#include <amgcl/backend/builtin.hpp>
#include <amgcl/adapter/crs_tuple.hpp>
#include <amgcl/solver/idrs.hpp>

typedef std::complex<double> C;
typedef std::vector<C> vec;
typedef amgcl::backend::builtin<C> Backend;
struct identity { template <class V1, class V2> void apply(const V1 &f, V2 &&x) const { for (size_t i = 0; i < f.size(); ++i) x[i] = f[i]; } };

static const int n = 3;
static const C a[3][3] = {{C(0, 2), C(1, 0), C(0, 0)}, {C(0, 0), C(0, -2), C(1, 0)}, {C(1, 0), C(0, 0), C(1, 2)}};
static vec mul(const vec &v) { vec w(n, C(0)); for (int i = 0; i < n; ++i) for (int j = 0; j < n; ++j) w[i] += a[i][j] * v[j]; return w; }
static C dot(const vec &u, const vec &v) { C s = 0; for (int i = 0; i < n; ++i) s += std::conj(u[i]) * v[i]; return s; }   // u^H v
static double nrm(const vec &u) { return std::sqrt(std::real(dot(u, u))); }
static vec axpy(C al, const vec &x, const vec &y) { vec z(n); for (int i = 0; i < n; ++i) z[i] = al * x[i] + y[i]; return z; }

int main() {
    std::vector<ptrdiff_t> ptr = {0, 3, 6, 9}, col = {0, 1, 2, 0, 1, 2, 0, 1, 2}; std::vector<C> val;
    for (int i = 0; i < n; ++i) for (int j = 0; j < n; ++j) val.push_back(a[i][j]);
    Backend::matrix A(std::tie(n, ptr, col, val));
    vec f = {C(1, 0), C(0, 1), C(1, 1)};
    auto run = [&](int k, bool smoothing) {
        amgcl::solver::idrs<Backend>::params prm; prm.s = 1; prm.omega = 0; prm.smoothing = smoothing; prm.maxiter = k; prm.tol = 0;
        amgcl::solver::idrs<Backend> S(n, prm); vec x(n, C(0)); S(A, identity(), f, x); return x;
    };
    int bad = 0;
    // IDR(1): iteration 2 is the step x += om r, r -= om t with t = A r
    vec x1 = run(1, false), x2 = run(2, false), r1 = axpy(-1.0, mul(x1), f), t = mul(r1);
    C om_mr = dot(t, r1) / dot(t, t), om_lib = dot(r1, axpy(-1.0, x1, x2)) / dot(r1, r1);
    std::cout << "om applied by the library " << om_lib << "   minimal-residual om = (t^H r)/(t^H t) " << om_mr << "\n";
    std::cout << "|r_1| = " << nrm(r1) << "  |r_2| = " << nrm(axpy(-1.0, mul(x2), f)) << "  with the minimal-residual step: " << nrm(axpy(-om_mr, t, r1)) << "\n";
    if (std::abs(om_lib - om_mr) > 1e-9) ++bad;
    // residual smoothing: the returned residual norms must not increase
    double prev = nrm(f);
    for (int k = 1; k <= 3; ++k) {
        double rk = nrm(axpy(-1.0, mul(run(k, true)), f));
        std::cout << "smoothing, k = " << k << ": |f - A x_s| = " << rk << (rk > prev * (1 + 1e-12) ? "   INCREASED" : "") << "\n";
        if (rk > prev * (1 + 1e-12)) ++bad; prev = rk;
    }
    std::cout << (bad ? "FAILED\n" : "OK\n");
    return bad ? 1 : 0;
}
